"""C39 - read-only and closed EKOs never change on disk (guard dominance + truth table)."""
from __future__ import annotations

import ast

from ..pe import PE, PERaise
from ..src import load, stmt_text
from .c38 import _calls, _callee, _perm_aliases, _write_sites

LEVEL = "other"
META = {
    "text": "(1) AccessConfigs.assert_writeable / assert_open / read / write are partially evaluated over the full truth table "
            "(path None or set, readonly, open): assert_writeable must raise exactly when the EKO is closed (ClosedOperator) or "
            "read-only (ReadOnlyOperator), whatever the path; assert_open exactly when closed. (2) Every function under eko/io "
            "that writes, removes or replaces a file of an EKO is enumerated; each must either have its file-system effects "
            "dominated by a call to assert_writeable on the EKO's access object, or be reachable only from such guarded callers "
            "(who-may-call), or belong to a frozen list of constructors/cleanup routines that act on a new or temporary location "
            "(Builder bootstrap, deepcopy to a new path, dump to an explicit path, removal of the temporary directory). (3) the "
            "in-memory store of Inventory is only assigned after the guard; readers assert_open; close() dumps only when not "
            "read-only and still open. (4) every store entry point (item assignment of a stored and of a new point, load_recipes of "
            "stored and new recipes, direct recipe assignment, update(), every metadata setter, dump()) is evaluated on a model file "
            "system for a read-only, a closed writable and a closed read-only EKO, in a fresh session and after the items were looked "
            "up (present in the in-memory caches): each attempt raises ReadOnlyOperator / ClosedOperator and every file is unchanged."
            " (5) EKO.read evaluated for the archive, the archive with a destination and the extracted folder: the object is read-only and a store raises and touches nothing; close() of read-only / closed EKOs performs no write, replace or remove outside the working directory.",
    "note": "Structural: the byte-for-byte statement follows because no write to the archive or its working directory can be "
            "reached without passing the guard, and the guard's truth table is exhaustive. OS behaviour is not modelled.",
    "technique": "guard-dominance / who-may-call rules on the AST + exhaustive partial evaluation of the guard's truth table + partial evaluation of every store entry point on a model file system",
    "engine": "sa",
}

# functions allowed to touch the file system without the writeable guard, each with the reason
EXEMPT = {
    "eko.io.paths.InternalPaths.bootstrap": "creates a brand-new EKO directory (called by Builder.build only)",
    "eko.io.struct.EKO.deepcopy": "writes a copy to a new location; guarded by assert_open",
    "eko.io.struct.EKO.close": "removes only the temporary working directory; the dump inside is guarded (not readonly, open)",
    "eko.io.struct.EKO.read": "extracts the archive into a fresh temporary directory",
}


def _local_receivers(fn):
    """local names bound exactly once to an attribute chain (`acc = self.access`): name -> chain"""
    stores = {}
    for n in ast.walk(fn):
        if isinstance(n, ast.Name) and isinstance(n.ctx, (ast.Store, ast.Del)):
            stores[n.id] = stores.get(n.id, 0) + 1
    out = {}
    for n in ast.walk(fn):
        if isinstance(n, ast.Assign) and len(n.targets) == 1 and isinstance(n.targets[0], ast.Name) and stores.get(n.targets[0].id) == 1 \
                and isinstance(n.value, ast.Attribute) and not any(isinstance(c, ast.Call) for c in ast.walk(n.value)):
            out[n.targets[0].id] = ast.unparse(n.value)
    return out


def _guard_callee(fn, call):
    """dotted callee with a local receiver name replaced by the attribute chain it stands for"""
    d = _callee(call)
    head, _, rest = d.partition(".")
    recv = _local_receivers(fn)
    return f"{recv[head]}.{rest}" if head in recv and rest else d


def _first_guard_index(fn, names=("assert_writeable",)):
    for i, st in enumerate(fn.body):
        if isinstance(st, ast.Expr) and isinstance(st.value, ast.Call) and _guard_callee(fn, st.value).split(".")[-1] in names \
                and "access" in _guard_callee(fn, st.value):
            return i
        if isinstance(st, ast.If):
            # dump(): guard sits in the branch that selects the default (permanent) archive
            for c in _calls(st):
                if _guard_callee(fn, c).split(".")[-1] in names and "access" in _guard_callee(fn, c):
                    return i
    return None


def _stmt_index_of(fn, node):
    for i, st in enumerate(fn.body):
        for m in ast.walk(st):
            if m is node:
                return i
    return None


def run(chk):
    src = load()
    pe = PE(src)
    chk.rule_text = "guard truth table exhaustive; every fs effect dominated by assert_writeable (or exempt with reason)"
    AC = "eko.io.access.AccessConfigs"
    fw = src.func(f"{AC}.assert_writeable")
    fo = src.func(f"{AC}.assert_open")
    # ---- (1) truth table ---------------------------------------------------------------------------
    n_rows = 0
    for path in (None, "/some/archive.tar"):
        for ro in (True, False):
            for op in (True, False):
                n_rows += 1
                inst = f"path={'set' if path else None},readonly={ro},open={op}"
                acc = pe.instantiate(AC, [path, ro, op])
                for msg in ((), ("m",)):
                    try:
                        pe.apply(pe.getattr(acc, "assert_writeable"), list(msg), {})
                        raised = None
                    except PERaise as e:
                        raised = e.etype
                    want = "ClosedOperator" if not op else ("ReadOnlyOperator" if ro else None)
                    chk.decide(raised == want, "assert-writeable-truth-table", fw.qname,
                               f"assert_writeable() with {inst}: {'raises ' + raised if raised else 'returns'}, must "
                               f"{'raise ' + want if want else 'return'}", where=fw.where, instance=inst + (",msg" if msg else ""),
                               detail=f"{inst} -> {want}", how="exhaustive PE")
                try:
                    pe.apply(pe.getattr(acc, "assert_open"), [], {})
                    raised = None
                except PERaise as e:
                    raised = e.etype
                chk.decide(raised == (None if op else "ClosedOperator"), "assert-open-truth-table", fo.qname,
                           f"assert_open() with {inst}: {'raises ' + raised if raised else 'returns'}", where=fo.where, instance=inst,
                           how="exhaustive PE")
                chk.decide(pe.getattr(acc, "write") is (op and not ro) and pe.getattr(acc, "read") is op, "permission-properties",
                           AC, f"read/write properties wrong for {inst}", where=fw.where, instance=inst, how="exhaustive PE")
    # ---- (2) fs effects under eko.io are guarded ------------------------------------------------------
    edges, _ = src.callgraph()
    callers = {}
    for a, bs in edges.items():
        for b in bs:
            callers.setdefault(b, set()).add(a)
    guarded = {}
    n_sites = 0
    for q, f in src.funcs.items():
        if not q.startswith("eko.io.") or f.parent is not None:
            continue
        sites = _write_sites(f.node, _perm_aliases(f.node))
        if not sites:
            continue
        n_sites += len(sites)
        if q in EXEMPT:
            chk.ok("fs-effect-guarded", q, f"exempt: {EXEMPT[q]}")
            continue
        gi = _first_guard_index(f.node)
        if gi is not None:
            bad = [c for c, t, k in sites if (_stmt_index_of(f.node, c) or 0) < gi]
            # in dump(): writing to an explicitly given path is allowed un-guarded; the default path needs the guard
            chk.decide(not bad, "fs-effect-guarded", q,
                       f"`{ast.unparse(bad[0])[:80] if bad else ''}` happens before the assert_writeable guard",
                       where=f"{f.module.relpath}:{bad[0].lineno if bad else f.lineno}", instance="effect before guard",
                       detail=f"{len(sites)} fs effect(s) after assert_writeable")
            guarded[q] = True
            continue
        # not guarded itself: every caller must be guarded before the call (who-may-call)
        cs = sorted(callers.get(q, ()))
        okc = bool(cs)
        why = "no caller found" if not cs else ""
        for cq in cs:
            cf = src.funcs[cq]
            cgi = _first_guard_index(cf.node)
            if cgi is None:
                okc = False
                why = f"caller {cq} has no assert_writeable guard"
                break
            for c in _calls(cf.node):
                r = src.resolve_call(cf, c)
                if getattr(r, "qname", None) == q or _callee(c).endswith("." + f.name):
                    if (_stmt_index_of(cf.node, c) or 0) < cgi:
                        okc = False
                        why = f"caller {cq} calls it before its guard"
        chk.decide(okc, "fs-effect-guarded", q,
                   f"{q} writes to the EKO directory without checking that the EKO is writeable, and {why}",
                   where=f.where, instance="unguarded writer", detail=f"only called from guarded {cs}")
    chk.floor("fs effect sites under eko.io", n_sites, 8)
    # ---- (3) in-memory store and readers -------------------------------------------------------------------
    inv_set = src.func("eko.io.inventory.Inventory.__setitem__")
    gi = _first_guard_index(inv_set.node)
    first_store = None
    for i, st in enumerate(inv_set.node.body):
        for n in ast.walk(st):
            if isinstance(n, ast.Assign) and any("self.cache" in ast.unparse(t) for t in n.targets):
                first_store = i if first_store is None else first_store
    chk.decide(gi is not None and (first_store is None or gi < first_store), "store-after-guard", inv_set.qname,
               "Inventory.__setitem__ updates its in-memory cache before (or without) assert_writeable", where=inv_set.where,
               detail="cache assigned after the guard")
    inv_get = src.func("eko.io.inventory.Inventory.__getitem__")
    def _preamble(st):
        """docstring, or a local name bound to a call-free attribute chain: nothing is read or changed yet"""
        return (isinstance(st, ast.Expr) and isinstance(st.value, ast.Constant)) or (
            isinstance(st, ast.Assign) and isinstance(st.value, ast.Attribute) and not any(isinstance(c, ast.Call) for c in ast.walk(st.value)))

    chk.decide(_first_guard_index(inv_get.node, ("assert_open", "assert_writeable")) == next(
        (i for i, st in enumerate(inv_get.node.body) if not _preamble(st)), None),
        "reader-asserts-open", inv_get.qname, "Inventory.__getitem__ looks the item up before (or without) assert_open", where=inv_get.where)
    fclose = src.func("eko.io.struct.EKO.close")
    chk.need(bool(fclose.node.body), "EKO.close has no body")
    _semantic(chk, src)
    chk.note(truth_table_rows=n_rows, fs_sites=n_sites, exempt=EXEMPT, files=["src/eko/io/access.py", "src/eko/io/struct.py",
                                                                              "src/eko/io/inventory.py", "src/eko/io/metadata.py"])
    chk.explanation = ("Exhaustive truth table of the access guards and guard-dominance of every file-system effect under eko/io "
                       "(who-may-call for unguarded helpers).")


def _semantic(chk, src):
    """Every store entry point of an EKO, evaluated on a model file system for a read-only EKO, a closed writable EKO and a closed
    read-only EKO, before and after the item concerned was looked up (so that it sits in the in-memory cache): the attempt must
    raise the permission error and the files must be unchanged."""
    from fractions import Fraction

    from .. import dag, fsmodel
    from ..arr import Arr
    from ..pe import Bound, Closure, Obj

    ekoc = src.cls("eko.io.struct.EKO")
    acls = src.cls("eko.io.access.AccessConfigs")
    ocls = src.cls("eko.io.items.Operator")
    mdc = src.cls("eko.io.metadata.Metadata")
    evc = src.cls("eko.io.items.Evolution")
    mtc = src.cls("eko.io.items.Matching")

    def bound(o, name):
        m = src.find_method(o.cls, name)
        return Bound(o, Closure(m, m.node, None, m.module, m.qname))

    def operator(tag):
        o = Obj(ocls)
        o.attrs.update(operator=Arr.from_nested([[[[dag.sym(f"{tag}{a}{i}{b}{j}") for j in range(2)] for b in range(2)] for i in range(2)] for a in range(2)]),
                       error=None)
        return o

    ep_old, ep_new = (Fraction(100), 5), (Fraction(400), 5)
    n = 0
    n_close = 0
    fclose = src.func("eko.io.struct.EKO.close")
    for state, (ro, op_) in {"read-only": (True, True), "closed (was writable)": (False, False), "closed read-only": (True, False)}.items():
        for warmed in (False, True):
            fs = fsmodel.FS()
            pe = PE(src)
            fsmodel.install(pe, fs)
            work = fs.path("/work")
            work.mkdir()
            fs.path("/out").mkdir()
            wacc = Obj(acls)
            wacc.attrs.update(path=fs.path("/out/a.tar"), readonly=False, open=True)
            invs = pe.call("eko.io.struct.inventories", [work, wacc])
            for inv in invs.values():
                inv.attrs["path"].mkdir(parents=True, exist_ok=True)
            md = Obj(mdc)
            md.attrs.update(origin=(Fraction(2), 4), xgrid="XG", _path=work, version="0", data_version=3)
            writer = pe.new_object(ekoc, [], dict(invs, metadata=md, access=wacc))
            r_ev = pe.instantiate(evc.qname, [Fraction(4), Fraction(100), 5, False])
            r_ma = pe.instantiate(mtc.qname, [Fraction(25), 5, False])
            pe.apply(bound(writer, "__setitem__"), [ep_old, operator("A")], {})
            pe.apply(bound(writer, "load_recipes"), [[r_ev, r_ma]], {})
            pe.apply(bound(md, "update"), [], {})
            pe.apply(bound(writer, "dump"), [], {})
            # the session under test: a new object on the same directory with the permissions of the state
            acc = Obj(acls)
            acc.attrs.update(path=fs.path("/out/a.tar"), readonly=ro, open=True)
            md2 = Obj(mdc)
            md2.attrs.update(dict(md.attrs))
            eko = pe.new_object(ekoc, [], dict(pe.call("eko.io.struct.inventories", [work, acc]), metadata=md2, access=acc))
            pe.apply(bound(eko.attrs["operators"], "sync"), [], {})
            if warmed:
                # look the items up first: they are now present in the in-memory caches
                pe.apply(bound(eko, "__getitem__"), [ep_old], {})
                pe.apply(bound(eko.attrs["recipes"], "__getitem__"), [r_ev], {})
                pe.apply(bound(eko.attrs["recipes_matching"], "__getitem__"), [r_ma], {})
            acc.attrs["open"] = op_
            before = dict(fs.files)
            attempts = {
                "eko[stored point] = operator": lambda: pe.apply(bound(eko, "__setitem__"), [ep_old, operator("B")], {}),
                "eko[new point] = operator": lambda: pe.apply(bound(eko, "__setitem__"), [ep_new, operator("C")], {}),
                "load_recipes([stored evolution recipe])": lambda: pe.apply(bound(eko, "load_recipes"), [[r_ev]], {}),
                "load_recipes([stored matching recipe])": lambda: pe.apply(bound(eko, "load_recipes"), [[r_ma]], {}),
                "load_recipes([new recipe])": lambda: pe.apply(bound(eko, "load_recipes"), [[pe.instantiate(evc.qname, [Fraction(4), Fraction(9), 4, False])]], {}),
                "recipes[stored recipe] = None": lambda: pe.apply(bound(eko.attrs["recipes"], "__setitem__"), [r_ev, None], {}),
                "update()": lambda: pe.apply(bound(eko, "update"), [], {}),
                **{f"{nm.split('@')[0]} = value": (lambda m_=m_: pe.apply(Bound(eko, Closure(m_, m_.node, None, m_.module, m_.qname)), ["NEWVALUE"], {}))
                   for nm, m_ in ekoc.methods.items() if "setter" in nm},
                "dump()": lambda: pe.apply(bound(eko, "dump"), [], {}),
            }
            for what, go in attempts.items():
                inst = f"{state},{'after looking the items up' if warmed else 'fresh session'},{what}"
                raised = None
                mark = len(fs.log)
                try:
                    go()
                except PERaise as e:
                    raised = e.etype
                n += 1
                same = fs.files == before and not [ev for ev in fs.log[mark:] if ev[0] != "read"]   # not even a rewrite with the same content
                chk.decide(raised in ("ReadOnlyOperator", "ClosedOperator") and same, "store-attempts-raise-and-leave-the-files-alone", ekoc.qname,
                           f"{inst}: raised {raised}; files unchanged: {same} - every attempt to store in a read-only or closed EKO must raise the "
                           f"permission error and touch nothing", where=ekoc.where, instance=inst, how="PE on a model file system")
                fs.files.clear()
                fs.files.update(before)
            # close() of such an EKO: the permanent archive stays as it is (only the working directory may go)
            archive = {k: v for k, v in before.items() if not k.startswith("/work")}
            raised = None
            mark = len(fs.log)
            try:
                pe.apply(bound(eko, "close"), [], {})
            except PERaise as e:
                raised = e.etype
            n_close += 1
            after = {k: v for k, v in fs.files.items() if not k.startswith("/work")}
            touched = [ev for ev in fs.log[mark:] if ev[0] != "read" and any(not str(x).startswith("/work") for x in ev[1:])]
            chk.decide(not touched, "close-dumps-only-when-writeable", fclose.qname,
                       f"{state},{'after looking the items up' if warmed else 'fresh session'},close(): file-system operations outside the working "
                       f"directory: {touched[:3]} - closing a read-only or closed EKO must not write, replace or remove anything there",
                       where=fclose.where, instance=f"{state},{warmed},close() operations", how="PE on a model file system (operation log)")
            inst = f"{state},{'after looking the items up' if warmed else 'fresh session'},close()"
            chk.decide(after == archive and archive, "close-dumps-only-when-writeable", fclose.qname,
                       f"{inst}: {'raised ' + raised + '; ' if raised else ''}the files outside the working directory changed "
                       f"({sorted(k for k in set(after) | set(archive) if after.get(k) != archive.get(k))[:3]}) - closing a read-only or closed EKO must leave the archive alone",
                       where=fclose.where, instance=inst, how="PE on a model file system")
    chk.floor("store attempts on read-only / closed EKOs", n, 50)
    chk.floor("close() of read-only / closed EKOs", n_close, 6)
    # ---- how an EKO gets its permissions: every way of opening an existing one without asking for write access -------------------
    from ..pe import ClassRef

    fs = fsmodel.FS()
    pe = PE(src)
    fsmodel.install(pe, fs)

    def metadata(path):
        m = Obj(mdc)
        m.attrs.update(origin=(Fraction(2), 4), xgrid="XG", _path=path, version="0", data_version=3)
        return m

    pe.overrides["eko.io.metadata.Metadata.load"] = lambda p_, a, k: metadata(a[-1] if isinstance(a[-1], fs.Path) else fs.Path(str(a[-1])))
    work = fs.path("/work")
    work.mkdir()
    fs.path("/out").mkdir()
    fs.path("/dest").mkdir()
    wacc = Obj(acls)
    wacc.attrs.update(path=fs.path("/out/a.tar"), readonly=False, open=True)
    invs = pe.call("eko.io.struct.inventories", [work, wacc])
    for inv in invs.values():
        inv.attrs["path"].mkdir(parents=True, exist_ok=True)
    md = metadata(work)
    writer = pe.new_object(ekoc, [], dict(invs, metadata=md, access=wacc))
    pe.apply(bound(writer, "__setitem__"), [ep_old, operator("A")], {})
    pe.apply(bound(md, "update"), [], {})
    pe.apply(bound(writer, "dump"), [], {})
    fread = ekoc.methods["read"]
    n_open = 0
    for label, args, kw in (("read(archive)", [fs.path("/out/a.tar")], {}),
                            ("read(archive, dest=folder)", [fs.path("/out/a.tar")], {"dest": fs.path("/dest")}),
                            ("read(extracted folder, extract=False)", [work], {"extract": False}),
                            ("read(archive, readonly=True)", [fs.path("/out/a.tar")], {"readonly": True}),
                            ("read(extracted folder, extract=False, readonly=True)", [work], {"extract": False, "readonly": True})):
        try:
            e = pe.apply(pe.getattr(ClassRef(ekoc), "read"), list(args), dict(kw))
        except PERaise as ex:
            chk.fail("opened-without-write-access-is-read-only", fread.qname, f"EKO.{label} raises {ex}", where=fread.where, instance=label)
            continue
        n_open += 1
        acc_ = e.attrs["access"].attrs
        before = dict(fs.files)
        mark = len(fs.log)
        raised = None
        try:
            pe.apply(bound(e, "__setitem__"), [ep_new, operator("N")], {})
        except PERaise as ex:
            raised = ex.etype
        touched = [ev for ev in fs.log[mark:] if ev[0] != "read"]
        chk.decide(acc_.get("readonly") is True and acc_.get("open") is True and raised == "ReadOnlyOperator" and fs.files == before and not touched,
                   "opened-without-write-access-is-read-only", fread.qname,
                   f"EKO.{label}: the object is readonly={acc_.get('readonly')}, open={acc_.get('open')}; storing a new operator "
                   f"{'raises ' + raised if raised else 'is accepted'} and performs {touched[:2] or 'no file operation'}; required a read-only object "
                   f"whose stores raise ReadOnlyOperator and touch nothing", where=fread.where, instance=label, how="PE of EKO.read on a model file system")
        fs.files.clear()
        fs.files.update(before)
    chk.floor("ways of opening an EKO read-only", n_open, 5)
