"""C39 - read-only and closed EKOs never change on disk (guard dominance + truth table)."""
from __future__ import annotations

import ast

from ..pe import PE, PERaise
from ..src import load, stmt_text
from .c38 import _calls, _callee, _perm_aliases, _write_sites

LEVEL = "other"
META = {
    "text": "(1) AccessConfigs.assert_writeable / assert_open / read / write are partially evaluated over the full truth table "
            "(path None or set, readonly, open): assert_writeable must raise exactly when the EKO is closed (ClosedOperator) or "
            "read-only (ReadOnlyOperator), whatever the path; assert_open exactly when closed. (2) Every function under eko/io "
            "that writes, removes or replaces a file of an EKO is enumerated; each must either have its file-system effects "
            "dominated by a call to assert_writeable on the EKO's access object, or be reachable only from such guarded callers "
            "(who-may-call), or belong to a frozen list of constructors/cleanup routines that act on a new or temporary location "
            "(Builder bootstrap, deepcopy to a new path, dump to an explicit path, removal of the temporary directory). (3) the "
            "in-memory store of Inventory is only assigned after the guard; readers assert_open; close() dumps only when not "
            "read-only and still open.",
    "note": "Structural: the byte-for-byte statement follows because no write to the archive or its working directory can be "
            "reached without passing the guard, and the guard's truth table is exhaustive. OS behaviour is not modelled.",
    "technique": "guard-dominance / who-may-call rules on the AST + exhaustive partial evaluation of the guard's truth table",
    "engine": "sa",
}

# functions allowed to touch the file system without the writeable guard, each with the reason
EXEMPT = {
    "eko.io.paths.InternalPaths.bootstrap": "creates a brand-new EKO directory (called by Builder.build only)",
    "eko.io.struct.EKO.deepcopy": "writes a copy to a new location; guarded by assert_open",
    "eko.io.struct.EKO.close": "removes only the temporary working directory; the dump inside is guarded (not readonly, open)",
    "eko.io.struct.EKO.read": "extracts the archive into a fresh temporary directory",
}


def _first_guard_index(fn, names=("assert_writeable",)):
    for i, st in enumerate(fn.body):
        if isinstance(st, ast.Expr) and isinstance(st.value, ast.Call) and _callee(st.value).split(".")[-1] in names \
                and "access" in _callee(st.value):
            return i
        if isinstance(st, ast.If):
            # dump(): guard sits in the branch that selects the default (permanent) archive
            for c in _calls(st):
                if _callee(c).split(".")[-1] in names and "access" in _callee(c):
                    return i
    return None


def _stmt_index_of(fn, node):
    for i, st in enumerate(fn.body):
        for m in ast.walk(st):
            if m is node:
                return i
    return None


def run(chk):
    src = load()
    pe = PE(src)
    chk.rule_text = "guard truth table exhaustive; every fs effect dominated by assert_writeable (or exempt with reason)"
    AC = "eko.io.access.AccessConfigs"
    fw = src.func(f"{AC}.assert_writeable")
    fo = src.func(f"{AC}.assert_open")
    # ---- (1) truth table ---------------------------------------------------------------------------
    n_rows = 0
    for path in (None, "/some/archive.tar"):
        for ro in (True, False):
            for op in (True, False):
                n_rows += 1
                inst = f"path={'set' if path else None},readonly={ro},open={op}"
                acc = pe.instantiate(AC, [path, ro, op])
                for msg in ((), ("m",)):
                    try:
                        pe.apply(pe.getattr(acc, "assert_writeable"), list(msg), {})
                        raised = None
                    except PERaise as e:
                        raised = e.etype
                    want = "ClosedOperator" if not op else ("ReadOnlyOperator" if ro else None)
                    chk.decide(raised == want, "assert-writeable-truth-table", fw.qname,
                               f"assert_writeable() with {inst}: {'raises ' + raised if raised else 'returns'}, must "
                               f"{'raise ' + want if want else 'return'}", where=fw.where, instance=inst + (",msg" if msg else ""),
                               detail=f"{inst} -> {want}", how="exhaustive PE")
                try:
                    pe.apply(pe.getattr(acc, "assert_open"), [], {})
                    raised = None
                except PERaise as e:
                    raised = e.etype
                chk.decide(raised == (None if op else "ClosedOperator"), "assert-open-truth-table", fo.qname,
                           f"assert_open() with {inst}: {'raises ' + raised if raised else 'returns'}", where=fo.where, instance=inst,
                           how="exhaustive PE")
                chk.decide(pe.getattr(acc, "write") is (op and not ro) and pe.getattr(acc, "read") is op, "permission-properties",
                           AC, f"read/write properties wrong for {inst}", where=fw.where, instance=inst, how="exhaustive PE")
    # ---- (2) fs effects under eko.io are guarded ------------------------------------------------------
    edges, _ = src.callgraph()
    callers = {}
    for a, bs in edges.items():
        for b in bs:
            callers.setdefault(b, set()).add(a)
    guarded = {}
    n_sites = 0
    for q, f in src.funcs.items():
        if not q.startswith("eko.io.") or f.parent is not None:
            continue
        sites = _write_sites(f.node, _perm_aliases(f.node))
        if not sites:
            continue
        n_sites += len(sites)
        if q in EXEMPT:
            chk.ok("fs-effect-guarded", q, f"exempt: {EXEMPT[q]}")
            continue
        gi = _first_guard_index(f.node)
        if gi is not None:
            bad = [c for c, t, k in sites if (_stmt_index_of(f.node, c) or 0) < gi]
            # in dump(): writing to an explicitly given path is allowed un-guarded; the default path needs the guard
            chk.decide(not bad, "fs-effect-guarded", q,
                       f"`{ast.unparse(bad[0])[:80] if bad else ''}` happens before the assert_writeable guard",
                       where=f"{f.module.relpath}:{bad[0].lineno if bad else f.lineno}", instance="effect before guard",
                       detail=f"{len(sites)} fs effect(s) after assert_writeable")
            guarded[q] = True
            continue
        # not guarded itself: every caller must be guarded before the call (who-may-call)
        cs = sorted(callers.get(q, ()))
        okc = bool(cs)
        why = "no caller found" if not cs else ""
        for cq in cs:
            cf = src.funcs[cq]
            cgi = _first_guard_index(cf.node)
            if cgi is None:
                okc = False
                why = f"caller {cq} has no assert_writeable guard"
                break
            for c in _calls(cf.node):
                r = src.resolve_call(cf, c)
                if getattr(r, "qname", None) == q or _callee(c).endswith("." + f.name):
                    if (_stmt_index_of(cf.node, c) or 0) < cgi:
                        okc = False
                        why = f"caller {cq} calls it before its guard"
        chk.decide(okc, "fs-effect-guarded", q,
                   f"{q} writes to the EKO directory without checking that the EKO is writeable, and {why}",
                   where=f.where, instance="unguarded writer", detail=f"only called from guarded {cs}")
    chk.floor("fs effect sites under eko.io", n_sites, 8)
    # ---- (3) in-memory store and readers -------------------------------------------------------------------
    inv_set = src.func("eko.io.inventory.Inventory.__setitem__")
    gi = _first_guard_index(inv_set.node)
    first_store = None
    for i, st in enumerate(inv_set.node.body):
        for n in ast.walk(st):
            if isinstance(n, ast.Assign) and any("self.cache" in ast.unparse(t) for t in n.targets):
                first_store = i if first_store is None else first_store
    chk.decide(gi is not None and (first_store is None or gi < first_store), "store-after-guard", inv_set.qname,
               "Inventory.__setitem__ updates its in-memory cache before (or without) assert_writeable", where=inv_set.where,
               detail="cache assigned after the guard")
    inv_get = src.func("eko.io.inventory.Inventory.__getitem__")
    chk.decide(_first_guard_index(inv_get.node, ("assert_open", "assert_writeable")) == next(
        (i for i, st in enumerate(inv_get.node.body) if not (isinstance(st, ast.Expr) and isinstance(st.value, ast.Constant))), None),
        "reader-asserts-open", inv_get.qname, "Inventory.__getitem__ does not start with assert_open", where=inv_get.where)
    fclose = src.func("eko.io.struct.EKO.close")
    dump_calls = [c for c in _calls(fclose.node) if _callee(c).endswith(".dump")]
    ok = bool(dump_calls)
    for st in ast.walk(fclose.node):
        if isinstance(st, ast.If) and any(c in list(_calls(st)) for c in dump_calls):
            ok = ok and "readonly" in ast.unparse(st.test) and ast.unparse(st.test).startswith("not")
    chk.decide(ok, "close-dumps-only-when-writeable", fclose.qname, "EKO.close dumps without testing `not readonly`", where=fclose.where)
    chk.note(truth_table_rows=n_rows, fs_sites=n_sites, exempt=EXEMPT, files=["src/eko/io/access.py", "src/eko/io/struct.py",
                                                                              "src/eko/io/inventory.py", "src/eko/io/metadata.py"])
    chk.explanation = ("Exhaustive truth table of the access guards and guard-dominance of every file-system effect under eko/io "
                       "(who-may-call for unguarded helpers).")
