"""C13 - evolution integrals equal their definitions and expansions (proof, formula level)."""
from __future__ import annotations

from .. import alg, dag
from ..arr import Arr
from ..pe import PE, PERaise
from ..src import load

LEVEL = "proof"
META = {
    "text": "Every j*_exact in eko/kernels/evolution_integrals.py and as4_evolution_integrals.py is extracted as a formula "
            "and proved (i) to vanish at a1=a0 and (ii) to have d/da1 equal to the defining integrand a^n/beta(a) for all "
            "couplings and all beta coefficients (for the N3LO ones: for every cubic, parametrised by its roots); every "
            "j*_expanded is proved equal to the Taylor truncation of that integrand derived in the checker; roots() is "
            "proved to return the three roots of the normalised beta polynomial (Vieta + p(r)=0) and derivative() = p'. On the physical domain the N3LO exact integrals "
            "are also evaluated from their extracted formulas (50 digits, literature beta coefficients of nf = 3..6, roots as given by roots()) for 30 coupling pairs "
            "between 0.001 and 0.09 and compared with the quadrature of the integrand: the phases of the complex logarithms are continuous between the couplings.",
    "note": "Decides the formulas, not floating-point evaluation: branch choices of complex sqrt/cbrt/log/atan and rounding "
            "are not decided; np.real(delta/Delta) is treated as identity (the source's documented reality assumption). "
            "Identity testing by random interpretation in F_p (error < 1e-30).",
    "technique": "partial evaluation to formulas + symbolic differentiation on the DAG + polynomial identity testing; high-precision evaluation of the extracted N3LO formulas against quadrature for the branch choices",
    "engine": "sa",
}

EI = "eko.kernels.evolution_integrals"
A4 = "eko.kernels.as4_evolution_integrals"


def run(chk):
    src = load()
    pe = PE(src, real_is_identity=True)
    pe.ext["builtins.complex"] = lambda pe_, a, k: a[0] if len(a) == 1 else pe_.s_add(a[0], pe_.s_mul(a[1], dag.sym("I")))
    chk.assumptions.append("np.real(delta/Delta) == delta/Delta (documented in the source); principal branches")
    chk.trusted += ["random interpretation in F_p", "sa/alg.py reference series"]
    chk.rule_text = "j(a0,a0)=0 ; d j/d a1 = a1^n/(beta0 a1^2 (1+sum b_i a1^i)) ; expanded = Taylor truncation"
    k = 3 if chk.tier == "quick" else 8
    a1, a0, b0 = dag.sym("a1"), dag.sym("a0"), dag.sym("beta0")
    b1, b2 = dag.sym("b1"), dag.sym("b2")
    bvec = Arr.from_nested([1, b1, b2])
    n_funcs = 0
    undiff = []

    def exact(qn, args, n, bs, label):
        nonlocal n_funcs
        f = src.func(qn)
        n_funcs += 1
        val = pe.call(qn, args)
        at0 = dag.substitute(dag.tonode(val), {"a1": a0})
        ok0, info0 = dag.is_zero_fp([at0], chk.seed, k)
        chk.decide(ok0, "integral-vanishes-at-equal-couplings", qn, f"{label}(a0,a0) != 0", where=f.where,
                   data={"formula": dag.to_str(dag.tonode(val))[:600], "witness": info0}, how="PIT F_p")
        try:
            d = dag.diff(val, "a1")
        except dag.Undecidable as e:
            # not differentiable on the DAG (moduli, phases): decided below on the physical domain if it is an N3LO integral
            undiff.append((label, str(e)))
            return val
        ref = alg.integrand(n, bs, b0, a1)
        ok, info = dag.is_zero_fp([dag.sub(d, ref)], chk.seed, k)
        chk.decide(ok, "derivative-equals-integrand", qn,
                   f"d {label}/d a1 differs from the defining integrand a1^{n}/(beta0 a1^2 (1+b1 a1+...)) "
                   f"[formula: {dag.short(dag.tonode(val), 300)}]", where=f.where,
                   data={"formula": dag.to_str(dag.tonode(val))[:600], "integrand": dag.to_str(ref), "witness": info},
                   detail=f"d/da1 == {dag.short(ref)}", how="DAG differentiation + PIT F_p")
        return val

    def expanded(qn, args, n, bs, keep, label):
        nonlocal n_funcs
        f = src.func(qn)
        n_funcs += 1
        val = pe.call(qn, args)
        ref = alg.taylor_integral(n, bs, keep, b0, a1, a0)
        ok, info = dag.is_zero_fp([dag.sub(val, ref)], chk.seed, k)
        chk.decide(ok, "expanded-equals-taylor-truncation", qn,
                   f"{label} differs from the Taylor truncation (through a^{keep}) of a^{n}/beta(a): "
                   f"source {dag.short(dag.tonode(val), 200)} vs reference {dag.short(ref, 200)}", where=f.where,
                   data={"formula": dag.to_str(dag.tonode(val)), "reference": dag.to_str(ref), "witness": info},
                   detail=f"== {dag.short(ref)}", how="PIT F_p")

    # --- LO / NLO / NNLO -----------------------------------------------------------
    exact(f"{EI}.j12", [a1, a0, b0], 1, [], "j12")
    exact(f"{EI}.j23_exact", [a1, a0, b0, bvec], 2, [b1], "j23_exact")
    exact(f"{EI}.j13_exact", [a1, a0, b0, bvec], 1, [b1], "j13_exact")
    exact(f"{EI}.j34_exact", [a1, a0, b0, bvec], 3, [b1, b2], "j34_exact")
    exact(f"{EI}.j24_exact", [a1, a0, b0, bvec], 2, [b1, b2], "j24_exact")
    exact(f"{EI}.j14_exact", [a1, a0, b0, bvec], 1, [b1, b2], "j14_exact")
    expanded(f"{EI}.j23_expanded", [a1, a0, b0], 2, [b1], 0, "j23_expanded")
    expanded(f"{EI}.j13_expanded", [a1, a0, b0, bvec], 1, [b1], 0, "j13_expanded")
    expanded(f"{EI}.j34_expanded", [a1, a0, b0], 3, [b1, b2], 1, "j34_expanded")
    expanded(f"{EI}.j24_expanded", [a1, a0, b0, bvec], 2, [b1, b2], 1, "j24_expanded")
    expanded(f"{EI}.j14_expanded", [a1, a0, b0, bvec], 1, [b1, b2], 1, "j14_expanded")

    # --- N3LO: parametrise the cubic by its roots (Vieta) ----------------------------
    r1, r2, r3 = dag.sym("r1"), dag.sym("r2"), dag.sym("r3")
    # p(a) = 1 + B1 a + B2 a^2 + B3 a^3 = B3 (a-r1)(a-r2)(a-r3), p(0) = 1
    B3 = dag.neg(dag.inv(dag.mul(r1, dag.mul(r2, r3))))
    B2 = dag.neg(dag.mul(B3, dag.addn([r1, r2, r3])))
    B1 = dag.mul(B3, dag.addn([dag.mul(r1, r2), dag.mul(r1, r3), dag.mul(r2, r3)]))
    blist = [B1, B2, B3]
    rts = [r1, r2, r3]
    j33 = exact(f"{A4}.j33_exact", [a1, a0, b0, blist, rts], 4, blist, "as4.j33_exact")
    j23 = exact(f"{A4}.j23_exact", [a1, a0, b0, blist, rts], 3, blist, "as4.j23_exact")
    j13 = exact(f"{A4}.j13_exact", [a1, a0, b0, blist, rts], 2, blist, "as4.j13_exact")
    j12 = pe.call(f"{EI}.j12", [a1, a0, b0])
    # j03 = j12 - b1 j13 - b2 j23 - b3 j33 composed with the exact pieces
    f03 = src.func(f"{A4}.j03_exact")
    n_funcs += 1
    v03 = pe.call(f"{A4}.j03_exact", [j12, j13, j23, j33, blist])
    # j03 is linear in the pieces: decided with independent symbols for them (their own derivatives are decided above)
    p13, p23, p33 = dag.sym("J13"), dag.sym("J23"), dag.sym("J33")
    lin = pe.call(f"{A4}.j03_exact", [j12, p13, p23, p33, blist])
    want03 = dag.sub(j12, dag.addn([dag.mul(B1, p13), dag.mul(B2, p23), dag.mul(B3, p33)]))
    ok, info = dag.is_zero_fp([dag.sub(lin, want03)], chk.seed, k)
    try:
        d03 = dag.diff(v03, "a1")
        ok2, info2 = dag.is_zero_fp([dag.sub(d03, alg.integrand(1, blist, b0, a1))], chk.seed, k)
        ok, info = ok and ok2, info if not ok else info2
    except dag.Undecidable as e:
        undiff.append(("as4.j03_exact", str(e)))
    chk.decide(ok, "derivative-equals-integrand", f03.qname,
               "j03_exact composed with j12,j13,j23,j33 is not the antiderivative of 1/(beta0 a p(a)) (j12 - b1 j13 - b2 j23 - b3 j33)", where=f03.where,
               data={"witness": info}, how="DAG differentiation + PIT F_p")
    # expanded N3LO
    c1, c2, c3 = dag.sym("b1"), dag.sym("b2"), dag.sym("b3")
    bl = [c1, c2, c3]
    expanded(f"{A4}.j33_expanded", [a1, a0, b0], 4, bl, 2, "as4.j33_expanded")
    expanded(f"{A4}.j23_expanded", [a1, a0, b0, bl], 3, bl, 2, "as4.j23_expanded")
    expanded(f"{A4}.j13_expanded", [a1, a0, b0, bl], 2, bl, 2, "as4.j13_expanded")
    fe = src.func(f"{A4}.j03_expanded")
    n_funcs += 1
    e12 = j12
    e13 = pe.call(f"{A4}.j13_expanded", [a1, a0, b0, bl])
    e23 = pe.call(f"{A4}.j23_expanded", [a1, a0, b0, bl])
    e33 = pe.call(f"{A4}.j33_expanded", [a1, a0, b0])
    v = pe.call(f"{A4}.j03_expanded", [e12, e13, e23, e33, bl])
    ref = alg.taylor_integral(1, bl, 2, b0, a1, a0)
    ok, info = dag.is_zero_fp([dag.sub(v, ref)], chk.seed, k)
    chk.decide(ok, "expanded-equals-taylor-truncation", fe.qname,
               f"j03_expanded composed with the expanded pieces differs from the Taylor truncation of 1/(a beta): "
               f"{dag.short(dag.tonode(v), 200)} vs {dag.short(ref, 200)}", where=fe.where, data={"witness": info},
               how="PIT F_p")

    # --- derivative() = p'(r) -----------------------------------------------------------
    fd = src.func(f"{A4}.derivative")
    n_funcs += 1
    r = dag.sym("r")
    dv = pe.call(fd.qname, [r, bl])
    pref = dag.diff(alg.poly([1, c1, c2, c3], r), "r")
    ok, info = dag.is_zero_fp([dag.sub(dv, pref)], chk.seed, k)
    chk.decide(ok, "derivative-of-beta-polynomial", fd.qname, f"derivative(r) = {dag.short(dag.tonode(dv))} is not p'(r)",
               where=fd.where, how="PIT F_p")

    # --- roots(): Cardano ------------------------------------------------------------------
    fr = src.func(f"{A4}.roots")
    n_funcs += 1
    rr = pe.call(fr.qname, [bl])
    chk.need(isinstance(rr, list) and len(rr) == 3, "roots() no longer returns a list of three values")
    obls = []
    for i, ri in enumerate(rr):
        obls.append((f"p(r{i + 1})=0", alg.poly([1, c1, c2, c3], ri)))
    # Vieta: the three values are THE three roots (not one root repeated)
    s1 = dag.addn(rr)
    s2 = dag.addn([dag.mul(rr[0], rr[1]), dag.mul(rr[0], rr[2]), dag.mul(rr[1], rr[2])])
    s3 = dag.mul(rr[0], dag.mul(rr[1], rr[2]))
    obls.append(("r1+r2+r3 = -b2/b3", dag.add(s1, dag.div(c2, c3))))
    obls.append(("r1r2+r1r3+r2r3 = b1/b3", dag.sub(s2, dag.div(c1, c3))))
    obls.append(("r1r2r3 = -1/b3", dag.add(s3, dag.inv(c3))))
    for name, e in obls:
        ok, info = dag.is_zero_fp([e], chk.seed, k)
        chk.decide(ok, "cubic-roots", fr.qname, f"roots(): {name} fails", where=fr.where, instance=name,
                   data={"witness": info}, detail=name, how="PIT F_p (prime = 1 mod 12, modular sqrt/cbrt)")
    # --- N3LO exact integrals on the physical domain: the branches of the complex logarithms (phases) ---------------------
    # the formula-level proof above leaves branch choices open; here the extracted formulas are evaluated (50 digits) with the
    # literature beta coefficients of nf = 3..6 and the roots given by roots(), for couplings on both sides of the real part of
    # the complex root pair, and compared with the quadrature of the defining integrand
    from .. import literature as lit, numeval
    from ..pe import decide_on_values

    mp = numeval.mp
    pen = PE(src, real_is_identity=False)
    pen.ext["builtins.complex"] = pe.ext["builtins.complex"]
    n_num = 0
    couplings = [mp.mpf(x) / 1000 for x in (1, 8, 20, 30, 50, 90)]
    for nfv in (3, 4, 5, 6):
        bet = [numeval.evaluate(dag.substitute(lit.BETA_QCD[(2 + i, 0)][0], {"nf": nfv}), {}) for i in range(4)]
        bnum = [bet[i] / bet[0] for i in (1, 2, 3)]
        try:
            roots_f = pen.call(fr.qname, [[dag.sym("b1"), dag.sym("b2"), dag.sym("b3")]])
            rvals = [numeval.evaluate(dag.tonode(x), {"b1": bnum[0], "b2": bnum[1], "b3": bnum[2]}) for x in roots_f]
            forms = {}
            for nm_, npow in (("j13_exact", 2), ("j23_exact", 3), ("j33_exact", 4)):
                forms[nm_] = (dag.tonode(pen.call(f"{A4}.{nm_}", [a1, a0, b0, [dag.sym("b1"), dag.sym("b2"), dag.sym("b3")],
                                                                 [dag.sym("r1"), dag.sym("r2"), dag.sym("r3")]])), npow)
        except (PERaise, KeyError, ValueError) as e:
            chk.need(False, f"the N3LO exact integrals can not be evaluated for the branch rule ({e})")
        bad = None
        for nm_, (form, npow) in forms.items():
            for x0 in couplings:
                for x1 in couplings:
                    if x0 == x1:
                        continue
                    env = {"a1": x1, "a0": x0, "beta0": bet[0], "b1": bnum[0], "b2": bnum[1], "b3": bnum[2],
                           "r1": rvals[0], "r2": rvals[1], "r3": rvals[2]}
                    unint = set()
                    got = numeval.evaluate(form, env, uninterpreted=unint)
                    chk.need(not unint, f"as4.{nm_}: the formula contains atoms without a numerical interpretation ({sorted(unint)})")
                    want = mp.quad(lambda a: a ** npow / (bet[0] * a ** 2 * (1 + bnum[0] * a + bnum[1] * a ** 2 + bnum[2] * a ** 3)), [x0, x1])
                    n_num += 1
                    if abs(got - want) > mp.mpf(10) ** -12 * (1 + abs(want)) and bad is None:
                        bad = (nm_, x0, x1, got, want)
        fj = src.func(f"{A4}.j33_exact")
        chk.decide(bad is None, "exact-integral-on-the-physical-domain", f"{A4}.{bad[0]}" if bad else f"{A4}.j33_exact",
                   (f"nf={nfv}: {bad[0]}(a1={mp.nstr(bad[2], 4)}, a0={mp.nstr(bad[1], 4)}) evaluates to {mp.nstr(bad[3], 8)} but the "
                    f"integral of the defining integrand is {mp.nstr(bad[4], 8)} (real part of the complex roots: "
                    f"{mp.nstr(max(mp.re(r_) for r_ in rvals if abs(mp.im(r_)) > 1e-20) if any(abs(mp.im(r_)) > 1e-20 for r_ in rvals) else 0, 4)}): a phase / "
                    f"branch of the logarithms is not continuous between the two couplings") if bad else "",
                   where=src.func(f"{A4}.{bad[0]}").where if bad else fj.where, instance=f"nf={nfv}",
                   detail=f"3 integrals x {len(couplings) * (len(couplings) - 1)} coupling pairs",
                   how="50-digit evaluation of the extracted formulas against quadrature of the integrand")
    chk.floor("numerical branch instances", n_num, 300)
    for label, why in undiff:
        chk.need(label.startswith("as4.j"), f"{label}: the extracted formula contains an operation with no derivative rule ({why})")
    if undiff:
        chk.note(not_differentiated=[f"{l_}: {w_} - decided on the physical domain only" for l_, w_ in undiff])
    chk.floor("evolution-integral functions analysed", n_funcs, 21)
    chk.note(functions=n_funcs, files=["src/eko/kernels/evolution_integrals.py", "src/eko/kernels/as4_evolution_integrals.py"])
    chk.explanation = ("Formulas of all evolution integrals extracted by partial evaluation; antiderivative property decided by "
                       "DAG differentiation and identity testing in F_p for all couplings and beta coefficients.")
