"""C54 - archives written by the Python library are read identically by the Rust reader (writer/reader tables across languages)."""
from __future__ import annotations

import ast
import re

from .. import effects as E
from ..pe import PE, Obj
from ..rs import Crates
from ..src import load, stmt_text

LEVEL = "other"
META = {
    "text": "Bitwise identity of the loaded tensors is the behaviour of numpy/lz4/tar and their Rust counterparts and is not decided. "
            "Decided is the agreement of everything the two implementations must share, extracted from both source trees: (1) the "
            "reader scans the directory `operators/` of the unpacked archive - the directory the Python store writes operators "
            "to; it unpacks the whole archive and the writer adds the whole working directory under '.'; (2) header files: the "
            "extension the reader filters on is the extension the writer uses; the keys the reader takes from a header (scale, "
            "nf) are exactly the fields of the Python Target header, `nf` is read as an integer only and is an integer field whose "
            "NumPy values are cast to builtins before dumping, `scale` is read as float with an integer fallback; (3) operator "
            "files: the reader derives the name from the header file name by replacing its extension with `npz.lz4`, which is the "
            "name the writer gives to an operator WITH errors (the case the property quantifies over), the npz members it asks "
            "for (`operator.npy`, `error.npy`) are the keywords of the writer's np.savez plus numpy's suffix, the compression is "
            "the lz4 *frame* format on both sides; (4) the Python store writes an operator file only by saving the operator "
            "under the name chosen from `error is not None` - no rename or move of operator files - so a file named npz.lz4 "
            "always holds an npz with both members; overwriting never leaves or misnames a second file (C37's invariant, "
            "re-used); (5) the reader's documented scale tolerance constants exist (rtol 1e-5, atol 1e-3).",
    "note": "Level 'other': necessary agreement conditions; the libraries' byte-level behaviour is outside static reach.",
    "technique": "cross-language writer/reader tables extracted from the Rust sources (lexical front-end) and the Python AST; who-may-write rule on operator files",
    "engine": "sa",
}

INV = "eko.io.inventory"


def run(chk):
    src = load()
    cr = Crates()
    pe = PE(src)
    chk.rule_text = "names, extensions, keys, member names, compression and directories agree between the Python writer and the Rust reader"
    feko = cr.file("crates/dekoder/src/eko.rs")
    finv = cr.file("crates/dekoder/src/inventory.rs")
    rc = {**feko.consts(), **finv.consts()}
    chk.need({"DIR_OPERATORS", "HEADER_EXT", "EP_CMP_RTOL", "EP_CMP_ATOL"} <= set(rc), f"Rust constants vanished: {sorted(rc)}")
    # ---- (1) directories / archive ------------------------------------------------------------------------------------------
    py_dir = pe.get_global("eko.io.paths", "OPERATORSDIR")
    chk.decide(rc["DIR_OPERATORS"].rstrip("/") == py_dir, "operators-directory-agrees", "crates/dekoder/src/eko.rs", f"the reader scans `{rc['DIR_OPERATORS']}`, the "
               f"writer stores operators in `{py_dir}`", where=feko.rel)
    uses = feko.find(r"Inventory::new\(\s*path\.join\(\s*(\w+)\s*\)")
    chk.decide(len(uses) == 1 and uses[0][0].group(1) == "DIR_OPERATORS", "operators-directory-agrees", "crates/dekoder/src/eko.rs::load_opened",
               "the operator inventory is no longer opened on path.join(DIR_OPERATORS)", where=feko.rel, instance="use")
    inv_t = pe.call("eko.io.struct.inventories", [Obj(src.cls("eko.io.paths.InternalPaths")) if False else "ROOT", "ACCESS"]) if False else None
    finvs = src.func("eko.io.struct.inventories")
    t = stmt_text(finvs.node)
    chk.decide("operators=Inventory(paths.operators" in t.replace(" ", "").replace("operators=Inventory(", "operators=Inventory(") or "paths.operators" in t,
               "operators-directory-agrees", finvs.qname, "the `operators` inventory is no longer rooted at paths.operators", where=finvs.where, instance="python")
    unpack = feko.find(r"\.unpack\(\s*&dst\s*\)")
    addall = stmt_text(src.cls("eko.io.struct.EKO").methods["dump"].node)
    chk.decide(len(unpack) == 1 and "tar.add(self.metadata.path, arcname='.')" in addall, "whole-archive-agrees", "crates/dekoder/src/eko.rs::extract",
               "the reader no longer unpacks the whole archive / the writer no longer adds the working directory as '.'", where=feko.rel)
    # ---- (2) headers -------------------------------------------------------------------------------------------------------------
    py_hext = pe.get_global(INV, "HEADER_EXT")
    chk.decide("." + rc["HEADER_EXT"] == py_hext, "header-extension-agrees", "crates/dekoder/src/inventory.rs", f"reader filters on `.{rc['HEADER_EXT']}`, writer uses "
               f"`{py_hext}`", where=finv.rel)
    flt = finv.find(r"extension\(\)\s*\.\s*is_none_or\(\s*\|ext\|\s*ext\s*!=\s*(\w+)\s*\)")
    chk.decide(len(flt) == 1 and flt[0][0].group(1) == "HEADER_EXT", "header-extension-agrees", "crates/dekoder/src/inventory.rs::load_keys",
               "load_keys no longer filters directory entries by HEADER_EXT", where=finv.rel, instance="filter")
    reads = {}
    for m, ln in feko.find(r'yml\[\s*"(\w+)"\s*\]\s*\.\s*(as_\w+)\s*\('):
        reads.setdefault(m.group(1), []).append(m.group(2))
    tgt = src.cls("eko.io.items.Target")
    fields = tgt.fields()
    chk.decide(set(reads) == set(fields), "header-keys-agree", "crates/dekoder/src/eko.rs::EvolutionPoint::try_from", f"the reader takes keys {sorted(reads)} "
               f"from a header, the Python Target header has fields {sorted(fields)}", where=feko.rel)
    from .c47 import _resolve_alias

    for key, how in reads.items():
        if key not in fields:
            continue
        node = next(st.annotation for st in tgt.node.body if isinstance(st, ast.AnnAssign) and st.target.id == key)
        base = _resolve_alias(src, tgt.module, node)
        if set(how) == {"as_i64"}:
            ok = base == "int"
            msg = f"`{key}` is read as an integer only; the Python field is `{fields[key][0]}` ({base})"
        else:
            ok = base in ("float", "int") and "as_f64" in how and "as_i64" in how
            msg = f"`{key}` is read with {how}; a Python {base} may be dumped as an integer-valued scalar, so the reader needs the float read with an integer fallback"
        chk.decide(ok, "header-kinds-agree", "crates/dekoder/src/eko.rs::EvolutionPoint::try_from", msg, where=feko.rel, instance=key)
    fset = src.func(f"{INV}.Inventory.__setitem__")
    tset = stmt_text(fset.node)
    chk.decide("np.generic" in tset and ".item()" in tset and "safe_dump" in tset, "header-kinds-agree", fset.qname,
               "the header payload is not normalised to builtin numbers before dumping: np.int64 / np.float64 would be written with python tags the "
               "Rust YAML loader cannot read as i64 / f64", where=fset.where, instance="normalised")
    # ---- (3) operator files ------------------------------------------------------------------------------------------------------------
    we = finv.find(r'\.with_extension\(\s*"([^"]+)"\s*\)')
    chk.need(len(we) == 1, "the reader no longer derives the operator file name with one with_extension(...)")
    r_ext = we[0][0].group(1)
    pe.overrides[f"{INV}.encode"] = lambda p, a, k: "STEM"
    h = Obj(tgt)
    h.attrs.update(scale=1.0, nf=4)
    py_name = pe.call(f"{INV}.operator_name", [h, True])
    py_head = pe.call(f"{INV}.header_name", [h])
    derived = py_head.rsplit(".", 1)[0] + "." + r_ext            # Path::with_extension replaces the last extension
    chk.decide(derived == py_name, "operator-name-agrees", "crates/dekoder/src/inventory.rs::load", f"from header `{py_head}` the reader derives `{derived}`; the "
               f"writer names an operator with errors `{py_name}`", where=finv.rel)
    members = [m.group(1) for m, _ in finv.find(r'by_name\(\s*"([^"]+)"\s*\)')]
    fsave = src.func("eko.io.items.Operator.save")
    savez = [c for c in src.calls_in(fsave) if (src.dotted(c.func) or "") == "np.savez"]
    chk.need(len(savez) == 1, "Operator.save no longer has one np.savez")
    kw = {k.arg: ast.unparse(k.value) for k in savez[0].keywords}
    chk.decide(sorted(members) == sorted(k + ".npy" for k in kw) and kw == {"operator": "self.operator", "error": "self.error"}, "npz-members-agree",
               "crates/dekoder/src/inventory.rs::load", f"the reader asks the npz for {members}; the writer stores {sorted(kw)} (numpy appends .npy)",
               where=finv.rel)
    # which member goes where
    pair = finv.find(r'let\s+op\s*=\s*Some\(\s*npz\s*\.by_name\("([^"]+)"\).*?let\s+err\s*=\s*Some\(\s*npz\s*\.by_name\("([^"]+)"\)')
    chk.decide(len(pair) == 1 and pair[0][0].group(1) == "operator.npy" and pair[0][0].group(2) == "error.npy", "npz-members-agree",
               "crates/dekoder/src/inventory.rs::load", "`op` / `err` are no longer filled from operator.npy / error.npy respectively", where=finv.rel,
               instance="assignment")
    ts = stmt_text(fsave.node)
    chk.decide("FrameDecoder::new" in finv.text and "lz4_flex::frame" in finv.text and "lz4.frame.compress(" in ts, "compression-agrees",
               "crates/dekoder/src/inventory.rs::load", "the two sides no longer both use the lz4 frame format", where=finv.rel)
    # ---- (4) python store: name <-> content, no renames -----------------------------------------------------------------------------------
    chk.decide("with_err = operator.error is not None" in tset and "operator_name(header, err=with_err)" in tset and "operator.save(fd)" in tset,
               "name-follows-content", fset.qname, "the operator file name is not chosen by `error is not None` of the operator that is saved into it",
               where=fset.where)
    moves = []
    for q, f in src.funcs.items():
        if not q.startswith("eko.io.inventory."):
            continue
        for c in src.calls_in(f):
            if isinstance(c.func, ast.Attribute) and c.func.attr in ("replace", "rename", "renames", "move", "copy", "copyfile", "copy2", "symlink_to",
                                                                       "hardlink_to", "link_to"):
                recv = ast.unparse(c.func.value)
                if c.func.attr == "replace" and not any(tok in recv for tok in ("path", "Path", "oppath", "other", "headpath")) and \
                        not any(isinstance(a, ast.Name) for a in c.args):
                    continue  # str.replace
                moves.append((q, ast.unparse(c)[:60], c.lineno))
    chk.decide(not moves, "name-follows-content", INV, f"the store renames / copies files: {moves}: a file could end up under the name of the other format "
               f"(the Rust reader opens <stem>.npz.lz4 as an npz with both members)", where=fset.where, instance="no renames")
    from .c37 import fs_invariant

    fs_invariant(chk, src, PE(src))
    # ---- (5) documented tolerance ----------------------------------------------------------------------------------------------------------
    chk.decide(rc["EP_CMP_RTOL"] == 1e-5 and rc["EP_CMP_ATOL"] == 1e-3, "documented-scale-tolerance", "crates/dekoder/src/eko.rs",
               f"scale tolerance constants are rtol={rc['EP_CMP_RTOL']}, atol={rc['EP_CMP_ATOL']} (documented 1e-5 / 1e-3)", where=feko.rel)
    eqs = feko.find(r"self\.nf\s*==\s*other\.nf\s*&&\s*is_close\(\s*self\.scale\s*,\s*other\.scale\s*,\s*EP_CMP_RTOL\s*,\s*EP_CMP_ATOL\s*\)")
    chk.decide(len(eqs) == 1, "documented-scale-tolerance", "crates/dekoder/src/eko.rs::EvolutionPoint::eq", "points are no longer compared by equal nf "
               "and close scale with the documented constants", where=feko.rel, instance="eq")
    chk.note(rust_files=[feko.rel, finv.rel], rust_constants=rc, header_reads=reads,
             files=["crates/dekoder/src/eko.rs", "crates/dekoder/src/inventory.rs", "src/eko/io/inventory.py", "src/eko/io/items.py", "src/eko/io/paths.py"])
    chk.explanation = "Cross-language writer/reader tables; who-may-write rule for operator files."
