"""C54 - archives written by the Python library are read identically by the Rust reader (writer/reader tables across languages)."""
from __future__ import annotations

import ast
import re
from fractions import Fraction

from .. import effects as E
from ..pe import PE, Obj
from ..rs import Crates
from ..src import load, stmt_text

LEVEL = "other"
META = {
    "text": "Bitwise identity of the loaded tensors is the behaviour of numpy/lz4/tar and their Rust counterparts and is not decided. "
            "Decided is the agreement of everything the two implementations must share: the reader's side is extracted from the Rust "
            "sources, the writer's side is READ OFF THE FILES the Python writer produces when its code is partially evaluated on a "
            "model file system (extension, container kind, member names and their contents, compression, header document, archive "
            "member names). (1) the "
            "reader scans the directory `operators/` of the unpacked archive - the directory the Python store writes operators "
            "to; it unpacks the whole archive and the writer adds the whole working directory under '.'; (2) header files: the "
            "extension the reader filters on is the extension the writer uses; the keys the reader takes from a header (scale, "
            "nf) are exactly the fields of the Python Target header, `nf` is read as an integer only and is an integer field whose "
            "NumPy values are cast to builtins before dumping, `scale` is read as float with an integer fallback; (3) operator "
            "files: the reader derives the name from the header file name by replacing its extension with `npz.lz4`, which is the "
            "name the writer gives to an operator WITH errors (the case the property quantifies over), the npz members it asks "
            "for (`operator.npy`, `error.npy`) are the keywords of the writer's np.savez plus numpy's suffix, the compression is "
            "the lz4 *frame* format on both sides; (4) the Python store writes an operator file only by saving the operator "
            "under the name chosen from `error is not None` - no rename or move of operator files - so a file named npz.lz4 "
            "always holds an npz with both members; overwriting never leaves or misnames a second file (C37's invariant, "
            "re-used); (5) the reader's documented scale tolerance constants exist (rtol 1e-5, atol 1e-3)."
            " A point handed back by EKO.approx (NumPy scalar semantics switched on in the evaluator) and used as a key again still gives a header with a built-in integer nf.",
    "note": "Level 'other': necessary agreement conditions; the libraries' byte-level behaviour is outside static reach.",
    "technique": "cross-language writer/reader tables: reader side extracted from the Rust sources (lexical front-end), writer side read off the files the Python writer produces under partial evaluation on a model file system; who-may-write rule on operator files",
    "engine": "sa",
}

INV = "eko.io.inventory"


def run(chk):
    src = load()
    cr = Crates()
    pe = PE(src)
    chk.rule_text = "names, extensions, keys, member names, compression and directories agree between the Python writer and the Rust reader"
    feko = cr.file("crates/dekoder/src/eko.rs")
    finv = cr.file("crates/dekoder/src/inventory.rs")
    rc = {**feko.consts(), **finv.consts()}
    chk.need({"DIR_OPERATORS", "HEADER_EXT", "EP_CMP_RTOL", "EP_CMP_ATOL"} <= set(rc), f"Rust constants vanished: {sorted(rc)}")
    # ---- (1) directories / archive ------------------------------------------------------------------------------------------
    py_dir = pe.get_global("eko.io.paths", "OPERATORSDIR")
    chk.decide(rc["DIR_OPERATORS"].rstrip("/") == py_dir, "operators-directory-agrees", "crates/dekoder/src/eko.rs", f"the reader scans `{rc['DIR_OPERATORS']}`, the "
               f"writer stores operators in `{py_dir}`", where=feko.rel)
    uses = feko.find(r"Inventory::new\(\s*&?\w+\.join\(\s*(\w+)\s*\)")
    chk.decide(len(uses) == 1 and uses[0][0].group(1) == "DIR_OPERATORS", "operators-directory-agrees", "crates/dekoder/src/eko.rs::load_opened",
               "the operator inventory is no longer opened on path.join(DIR_OPERATORS)", where=feko.rel, instance="use")
    finvs = src.func("eko.io.struct.inventories")
    from .. import fsmodel

    fs_ = fsmodel.FS()
    pe_fs = PE(src)
    fsmodel.install(pe_fs, fs_)
    invs = pe_fs.call(finvs.qname, [fs_.path("/ROOT"), "ACCESS"])
    got_dir = str(invs["operators"].attrs["path"]) if isinstance(invs, dict) and "operators" in invs else None
    chk.decide(got_dir == f"/ROOT/{py_dir}", "operators-directory-agrees", finvs.qname, f"the `operators` inventory of an EKO rooted at /ROOT works in "
               f"{got_dir}; the reader scans /ROOT/{rc['DIR_OPERATORS'].rstrip('/')}", where=finvs.where, instance="python", how="PE on a model path")
    unpack = feko.find(r"\.unpack\(\s*&?\w+\s*\)")
    # the writer: EKO.dump evaluated on the model file system - the members of the archive are the files of the working directory,
    # named relative to it (what an unpack into a fresh directory reproduces)
    fs2 = fsmodel.FS()
    pe2 = PE(src)
    fsmodel.install(pe2, fs2)
    fs2.path("/work/operators").mkdir(parents=True)
    fs2.path("/out").mkdir()
    fs2.write("/work/metadata.yaml", ("yaml", {"m": 1}))
    fs2.write("/work/operators/a.npz.lz4", ("lz4", "A"))
    ekoc_ = src.cls("eko.io.struct.EKO")
    e_ = Obj(ekoc_)
    md_ = Obj(src.cls("eko.io.metadata.Metadata"))
    md_.attrs.update(_path=fs2.path("/work"))
    acc_ = Obj(src.cls("eko.io.access.AccessConfigs"))
    acc_.attrs.update(path=fs2.path("/out/a.tar"), readonly=False, open=True)
    e_.attrs.update(metadata=md_, access=acc_)
    try:
        pe2.apply(pe2.getattr(e_, "dump"), [], {})
        tok = fs2.files.get("/out/a.tar")
        members = sorted(tok[1]) if isinstance(tok, tuple) and tok[0] == "tar" else None
    except Exception as ex:
        members = f"raises {ex}"
    addall_ok = members == ["metadata.yaml", "operators/a.npz.lz4"]
    chk.decide(len(unpack) == 1 and addall_ok, "whole-archive-agrees", "crates/dekoder/src/eko.rs::extract",
               "the reader no longer unpacks the whole archive / the writer no longer adds the working directory as '.'", where=feko.rel)
    # ---- (2) headers -------------------------------------------------------------------------------------------------------------
    py_hext = pe.get_global(INV, "HEADER_EXT")
    chk.decide("." + rc["HEADER_EXT"] == py_hext, "header-extension-agrees", "crates/dekoder/src/inventory.rs", f"reader filters on `.{rc['HEADER_EXT']}`, writer uses "
               f"`{py_hext}`", where=finv.rel)
    flt = finv.find(r"extension\(\)\s*\.\s*is_none_or\(\s*\|ext\|\s*ext\s*!=\s*(\w+)\s*\)")
    chk.decide(len(flt) == 1 and flt[0][0].group(1) == "HEADER_EXT", "header-extension-agrees", "crates/dekoder/src/inventory.rs::load_keys",
               "load_keys no longer filters directory entries by HEADER_EXT", where=finv.rel, instance="filter")
    reads = {}
    for m, ln in feko.find(r'yml\[\s*"(\w+)"\s*\]\s*\.\s*(as_\w+)\s*\('):
        reads.setdefault(m.group(1), []).append(m.group(2))
    tgt = src.cls("eko.io.items.Target")
    fields = tgt.fields()
    chk.decide(set(reads) == set(fields), "header-keys-agree", "crates/dekoder/src/eko.rs::EvolutionPoint::try_from", f"the reader takes keys {sorted(reads)} "
               f"from a header, the Python Target header has fields {sorted(fields)}", where=feko.rel)
    from .c47 import _resolve_alias

    for key, how in reads.items():
        if key not in fields:
            continue
        node = next(st.annotation for st in tgt.node.body if isinstance(st, ast.AnnAssign) and st.target.id == key)
        base = _resolve_alias(src, tgt.module, node)
        if set(how) == {"as_i64"}:
            ok = base == "int"
            msg = f"`{key}` is read as an integer only; the Python field is `{fields[key][0]}` ({base})"
        else:
            ok = base in ("float", "int") and "as_f64" in how and "as_i64" in how
            msg = f"`{key}` is read with {how}; a Python {base} may be dumped as an integer-valued scalar, so the reader needs the float read with an integer fallback"
        chk.decide(ok, "header-kinds-agree", "crates/dekoder/src/eko.rs::EvolutionPoint::try_from", msg, where=feko.rel, instance=key)
    fset = src.func(f"{INV}.Inventory.__setitem__")
    # what the Python writer actually produces, on the model file system: an operator with errors and one without, stored under
    # headers given as NumPy scalars
    written = _python_writer_table(src)
    hd = written.get("header")
    chk.decide(isinstance(hd, tuple) and hd[0] == "yaml" and isinstance(hd[1], dict) and all(isinstance(v, (int, Fraction)) or hasattr(v, "op") for v in hd[1].values()),
               "header-kinds-agree", fset.qname, f"a header given as NumPy scalars is written as {hd}: it must be a plain-YAML mapping of built-in "
               "numbers (np.int64 / np.float64 would carry python tags the Rust YAML loader cannot read as i64 / f64)", where=fset.where,
               instance="normalised", how="PE on a model file system")
    chk.decide(isinstance(hd, tuple) and isinstance(hd[1], dict) and hd[1].get("scale") == Fraction(9) and hd[1].get("nf") == 4 and set(hd[1]) == {"scale", "nf"},
               "header-values-are-the-header-fields", fset.qname,
               f"the header (scale = 9, nf = 4) is written as {hd[1] if isinstance(hd, tuple) else hd}: the reader takes the stored numbers as the squared "
               "scale and the flavour number themselves, so the file has to hold the fields unchanged (a stored square root, a rescaled or renamed "
               "field is another evolution point for the Rust reader, and does not survive the way back in floating point either)", where=fset.where,
               instance="values", how="PE on a model file system")
    # ---- (3) operator files ------------------------------------------------------------------------------------------------------------
    we = finv.find(r'\.with_extension\(\s*"([^"]+)"\s*\)')
    chk.need(len(we) == 1, "the reader no longer derives the operator file name with one with_extension(...)")
    r_ext = we[0][0].group(1)
    pe.overrides[f"{INV}.encode"] = lambda p, a, k: "STEM"
    h = Obj(tgt)
    h.attrs.update(scale=1.0, nf=4)
    py_name = pe.call(f"{INV}.operator_name", [h, True])
    py_head = pe.call(f"{INV}.header_name", [h])
    derived = py_head.rsplit(".", 1)[0] + "." + r_ext            # Path::with_extension replaces the last extension
    chk.decide(derived == py_name, "operator-name-agrees", "crates/dekoder/src/inventory.rs::load", f"from header `{py_head}` the reader derives `{derived}`; the "
               f"writer names an operator with errors `{py_name}`", where=finv.rel)
    members = [m.group(1) for m, _ in finv.find(r'by_name\(\s*"([^"]+)"\s*\)')]
    fsave = src.func("eko.io.items.Operator.save")
    werr = written.get("with-error", {})
    kw = werr.get("members") or {}
    chk.decide(sorted(members) == sorted(k + ".npy" for k in kw) and kw == {"operator": "OPERATOR", "error": "ERROR"}, "npz-members-agree",
               "crates/dekoder/src/inventory.rs::load", f"the reader asks the npz for {members}; the writer stores {kw} (member -> content; numpy appends "
               f".npy to the names)", where=finv.rel, how="PE of the writer on a model file system")
    # an error tensor that happens to vanish (the identity at the initial scale, a matching at LO) is an error tensor all the same:
    # the reader opens the npz with both members for every listed point
    wz = written.get("with-vanishing-error", {})
    chk.decide(wz.get("container") == "npz" and set((wz.get("members") or {})) == {"operator", "error"} and wz.get("suffix") == werr.get("suffix"),
               "npz-members-agree", fset.qname, f"an operator whose error tensor is identically zero is written as {wz}: the reader then finds no "
               f"`{r_ext}` file with the members {members} for a point it lists", where=fset.where, instance="vanishing error tensor",
               how="PE of the writer on a model file system")
    # which member goes where
    # which member fills which FIELD of the returned Operator (through whatever local variables): `Operator { op, err }` or
    # `Operator { op: a, err: b }`, with `let a = Some(npz.by_name("..."))`
    init = finv.find(r'Operator\s*\{([^{}]*)\}')
    filled = {}
    for m_, _ in init:
        for part in m_.group(1).split(","):
            part = part.strip()
            if not part or part.startswith(".."):
                continue
            field, _, var = part.partition(":")
            var = (var or field).strip()
            src_member = finv.find(r'let\s+(?:mut\s+)?' + re.escape(var) + r'\b[^=]*=\s*Some\(\s*npz\s*\.by_name\(\s*"([^"]+)"\s*\)')
            if src_member:
                filled[field.strip()] = src_member[0][0].group(1)
    chk.decide(filled == {"op": "operator.npy", "err": "error.npy"}, "npz-members-agree",
               "crates/dekoder/src/inventory.rs::load", f"the fields of the returned Operator are filled as {filled}; required op from operator.npy and err "
               f"from error.npy", where=finv.rel, instance="assignment")
    chk.decide("FrameDecoder::new" in finv.text and "lz4_flex::frame" in finv.text and werr.get("compression") == "lz4" and written.get("without-error", {}).get("compression") == "lz4", "compression-agrees",
               "crates/dekoder/src/inventory.rs::load", "the two sides no longer both use the lz4 frame format", where=finv.rel)
    # ---- (4) python store: name <-> content, no renames -----------------------------------------------------------------------------------
    ext_tab = pe.get_global(INV, "OPERATOR_EXT")
    okn = werr.get("container") == "npz" and werr.get("suffix") == ext_tab[1] and written.get("without-error", {}).get("container") == "npy" \
        and written.get("without-error", {}).get("suffix") == ext_tab[0]
    chk.decide(okn, "name-follows-content", fset.qname, f"an operator with errors is written as {werr.get('container')} under `{werr.get('suffix')}`, one without as "
               f"{written.get('without-error', {}).get('container')} under `{written.get('without-error', {}).get('suffix')}`; required npz under "
               f"`{ext_tab[1]}` and npy under `{ext_tab[0]}` (the Rust reader opens `{r_ext}` as an npz)", where=fset.where, how="PE of the writer on a model file system")
    moves = []
    for q, f in src.funcs.items():
        if not q.startswith("eko.io.inventory."):
            continue
        for c in src.calls_in(f):
            if isinstance(c.func, ast.Attribute) and c.func.attr in ("replace", "rename", "renames", "move", "copy", "copyfile", "copy2", "symlink_to",
                                                                       "hardlink_to", "link_to"):
                recv = ast.unparse(c.func.value)
                if c.func.attr == "replace" and not any(tok in recv for tok in ("path", "Path", "oppath", "other", "headpath")) and \
                        not any(isinstance(a, ast.Name) for a in c.args):
                    continue  # str.replace
                moves.append((q, ast.unparse(c)[:60], c.lineno))
    chk.decide(not moves, "name-follows-content", INV, f"the store renames / copies files: {moves}: a file could end up under the name of the other format "
               f"(the Rust reader opens <stem>.npz.lz4 as an npz with both members)", where=fset.where, instance="no renames")
    from .c37 import fs_invariant

    fs_invariant(chk, src, PE(src))
    # ---- (5) documented tolerance ----------------------------------------------------------------------------------------------------------
    chk.decide(rc["EP_CMP_RTOL"] == 1e-5 and rc["EP_CMP_ATOL"] == 1e-3, "documented-scale-tolerance", "crates/dekoder/src/eko.rs",
               f"scale tolerance constants are rtol={rc['EP_CMP_RTOL']}, atol={rc['EP_CMP_ATOL']} (documented 1e-5 / 1e-3)", where=feko.rel)
    eqs = feko.find(r"self\.nf\s*==\s*other\.nf\s*&&\s*is_close\(\s*self\.scale\s*,\s*other\.scale\s*,\s*EP_CMP_RTOL\s*,\s*EP_CMP_ATOL\s*\)")
    chk.decide(len(eqs) == 1, "documented-scale-tolerance", "crates/dekoder/src/eko.rs::EvolutionPoint::eq", "points are no longer compared by equal nf "
               "and close scale with the documented constants", where=feko.rel, instance="eq")
    _keys_handed_out(chk, src)
    chk.note(rust_files=[feko.rel, finv.rel], rust_constants=rc, header_reads=reads,
             files=["crates/dekoder/src/eko.rs", "crates/dekoder/src/inventory.rs", "src/eko/io/inventory.py", "src/eko/io/items.py", "src/eko/io/paths.py"])
    chk.explanation = "Cross-language writer/reader tables; who-may-write rule for operator files."


def _python_writer_table(src):
    """store one operator with and one without errors through Inventory.__setitem__ on the model file system and describe the files"""
    import pathlib

    from .. import fsmodel
    from ..pe import ClassRef

    out = {}
    icls = src.cls(f"{INV}.Inventory")
    from ..arr import Arr

    for label, with_err in (("with-error", True), ("with-vanishing-error", "zero"), ("without-error", False)):
        fs = fsmodel.FS()
        pe = PE(src)
        fsmodel.install(pe, fs)
        fs.path("/d").mkdir()
        inv = Obj(icls)
        acc = Obj(src.cls("eko.io.access.AccessConfigs"))
        acc.attrs.update(path=None, readonly=False, open=True)
        inv.attrs.update(path=fs.path("/d"), access=acc, header_type=ClassRef(src.cls("eko.io.items.Target")), cache={}, contentless=False, name="operators")
        h = Obj(src.cls("eko.io.items.Target"))
        h.attrs.update(scale=fsmodel.NpScalar(Fraction(9)), nf=fsmodel.NpScalar(4, "int64"))
        o = Obj(src.cls("eko.io.items.Operator"))
        o.attrs.update(operator="OPERATOR", error=(Arr.from_nested([[[[0, 0]]]]) if with_err == "zero" else "ERROR") if with_err else None)
        try:
            pe.apply(pe.getattr(inv, "__setitem__"), [h, o], {})
        except Exception as e:  # the table then simply lacks the entry
            out[label] = {"error": str(e)}
            continue
        for p, tok in fs.files.items():
            suffix = "".join(pathlib.PurePosixPath(p).suffixes)
            if isinstance(tok, tuple) and tok[0] == "yaml":
                out["header"] = tok
                continue
            d = {"suffix": suffix}
            if isinstance(tok, tuple) and tok[0] == "lz4":
                d["compression"] = "lz4"
                tok = tok[1]
            if isinstance(tok, tuple) and tok[0] in ("npz", "npy"):
                d["container"] = tok[0]
                d["members"] = dict(tok[1]) if tok[0] == "npz" else None
            out[label] = d
    return out


def _keys_handed_out(chk, src):
    """The library hands evolution points back to the user (EKO.approx looks one up through a NumPy array); a point obtained that way
    and used as a key again must still give a header of plain built-in numbers with an INTEGER flavour number - the Rust reader takes
    `nf` with `as_i64` only, and `nf: 5.0` is a YAML real.  Evaluated on the model file system with NumPy scalar semantics switched
    on in the evaluator (elements of an array built by numpy.array are np.float64 / np.int64)."""
    from .. import dag, fsmodel
    from ..arr import Arr
    from ..pe import Bound, Closure, PERaise

    ekoc = src.cls("eko.io.struct.EKO")
    acls = src.cls("eko.io.access.AccessConfigs")
    ocls = src.cls("eko.io.items.Operator")
    mdc = src.cls("eko.io.metadata.Metadata")
    fap = ekoc.methods["approx"]
    fs = fsmodel.FS()
    pe = PE(src)
    pe.np_scalars = True
    fsmodel.install(pe, fs)

    def bound(o, name):
        m = src.find_method(o.cls, name)
        return Bound(o, Closure(m, m.node, None, m.module, m.qname))

    def operator(tag):
        o = Obj(ocls)
        o.attrs.update(operator=Arr.from_nested([[[[dag.sym(f"{tag}{a}{i}{b}{j}") for j in range(2)] for b in range(2)] for i in range(2)] for a in range(2)]), error=None)
        return o

    work = fs.path("/work")
    work.mkdir()
    acc = Obj(acls)
    acc.attrs.update(path=fs.path("/a.tar"), readonly=False, open=True)
    invs = pe.call("eko.io.struct.inventories", [work, acc])
    for inv in invs.values():
        inv.attrs["path"].mkdir(parents=True, exist_ok=True)
    md = Obj(mdc)
    md.attrs.update(origin=(Fraction(2), 4), xgrid="XG", _path=work, version="0", data_version=3)
    eko = pe.new_object(ekoc, [], dict(invs, metadata=md, access=acc))
    ep0 = (Fraction(201, 2), 5)
    try:
        pe.apply(bound(eko, "__setitem__"), [ep0, operator("A")], {})
        pe.apply(bound(eko, "__setitem__"), [(Fraction(9), 4), operator("B")], {})
        got = pe.apply(bound(eko, "approx"), [(Fraction(201, 2), 5)], {})
        chk.need(isinstance(got, tuple) and len(got) == 2, f"EKO.approx of a stored point returns {got!r}")
        pe.apply(bound(eko, "__setitem__"), [got, operator("C")], {})
    except PERaise as e:
        chk.fail("header-kinds-agree", fap.qname, f"looking a stored point up with approx and storing under the returned key raises {e}", where=fap.where,
                 instance="approx")
        return
    opdir = eko.attrs["operators"].attrs["path"]
    heads = {p_: t for p_, t in fs.files.items() if p_.startswith(str(opdir) + "/") and isinstance(t, tuple) and t[0] == "yaml"}
    chk.need(len(heads) == 2, f"expected two operator headers on the model file system, found {sorted(heads)}")
    bad = {p_: t[1] for p_, t in heads.items() if not (isinstance(t[1], dict) and isinstance(t[1].get("nf"), int) and not isinstance(t[1].get("nf"), bool))}
    chk.decide(not bad and isinstance(got[1], int) and not isinstance(got[1], bool), "header-kinds-agree", fap.qname,
               f"EKO.approx hands back the point {got!r}; an operator stored under it gets the header {list(bad.values())[:1] or 'with integer nf'}: the "
               f"flavour number must stay a built-in integer (a float, or a NumPy scalar turned into one, is written as `nf: 5.0`, which the "
               f"Rust reader's as_i64 refuses - the archive can then not be listed at all)", where=fap.where, instance="approx",
               how="PE on a model file system with NumPy scalar semantics")
