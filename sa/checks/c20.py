"""C20 - beta-function and mass anomalous-dimension coefficients match the literature (proof)."""
from __future__ import annotations

from fractions import Fraction

from .. import dag, literature as lit
from ..pe import PE, PERaise
from ..src import load

LEVEL = "proof"
META = {
    "text": "Every coefficient function in eko/beta.py and eko/gamma.py is extracted from the source as an exact "
            "polynomial in nf (zeta values as atoms) by partial evaluation and proved equal to the frozen literature "
            "table for all nf; QED/mixed coefficients are compared exactly for every nf in 0..6 and nl in 0..3; the "
            "dispatchers beta_qcd/beta_qed/gamma are shown to route each key to that function and to refuse other keys.",
    "note": "Trusted: the literature table sa/literature.py (self-tested against the published numeric forms on every run), "
            "the PE model of float literals as exact decimals, random interpretation in F_p (error < 1e-30).",
    "technique": "formula extraction by partial evaluation of the AST + polynomial identity testing against a literature table",
    "engine": "sa",
}


def _coef_report(got, ref):
    """coefficient-wise diagnosis with sympy (small polynomials)"""
    import sympy as sp

    n = sp.Symbol("nf")
    g = sp.expand(dag.to_sympy(got))
    r = sp.expand(dag.to_sympy(ref))
    d = sp.expand(g - r)
    out = []
    for k in range(0, 6):
        ck = d.coeff(n, k)
        if ck != 0:
            out.append(f"nf^{k}: source {sp.nsimplify(g.coeff(n, k))} vs literature {sp.nsimplify(r.coeff(n, k))}")
    return "; ".join(str(x) for x in out) or str(d)


def run(chk):
    src = load()
    pe = PE(src)
    chk.rule_text = "extracted formula == literature formula for all nf (PIT in F_p, k=3 points)"
    chk.trusted += ["sa/literature.py table", "random interpretation in F_(2^61-1)"]
    bad = lit.selftest()
    chk.need(not bad, "literature table fails its own numeric cross-check: " + "; ".join(bad))
    nf = dag.sym("nf")
    k = 3 if chk.tier == "quick" else 8

    # --- QCD beta coefficients ------------------------------------------------
    names = {(2, 0): "beta_qcd_as2", (3, 0): "beta_qcd_as3", (4, 0): "beta_qcd_as4", (5, 0): "beta_qcd_as5"}
    for key, fname in names.items():
        f = src.func(f"eko.beta.{fname}")
        got = pe.call(f.qname, [nf])
        ref = lit.BETA_QCD[key][0]
        ok, info = dag.equal_fp(got, ref, chk.seed, k)
        chk.decide(ok, "coefficient-vs-literature", f.qname,
                   f"beta coefficient {key} differs from {lit.BETA_QCD[key][1]}: " + (_coef_report(got, ref) if not ok else ""),
                   where=f.where, data={"source": dag.to_str(dag.tonode(got)), "literature": dag.to_str(ref)},
                   detail=f"== {dag.short(ref)}", how="PIT F_p")
        # dispatcher routes key to the same formula
        via = pe.call("eko.beta.beta_qcd", [key, nf])
        ok2, _ = dag.equal_fp(via, ref, chk.seed, k)
        chk.decide(ok2, "dispatcher-routing", "eko.beta.beta_qcd", f"beta_qcd({key}) does not return the {key} coefficient",
                   where=src.func("eko.beta.beta_qcd").where, instance=str(key), how="PIT F_p")

    # --- gamma (mass anomalous dimension) ---------------------------------------
    gnames = {1: "gamma_qcd_as1", 2: "gamma_qcd_as2", 3: "gamma_qcd_as3", 4: "gamma_qcd_as4"}
    for order, fname in gnames.items():
        f = src.func(f"eko.gamma.{fname}")
        got = pe.call(f.qname, [nf] if f.params else [])
        ref = lit.GAMMA_QCD[order][0]
        ok, info = dag.equal_fp(got, ref, chk.seed, k)
        chk.decide(ok, "coefficient-vs-literature", f.qname,
                   f"gamma_m coefficient of order {order} differs from {lit.GAMMA_QCD[order][1]}: "
                   + (_coef_report(got, ref) if not ok else ""),
                   where=f.where, data={"source": dag.to_str(dag.tonode(got)), "literature": dag.to_str(ref)},
                   detail=f"== {dag.short(ref)}", how="PIT F_p")
        via = pe.call("eko.gamma.gamma", [order, nf])
        ok2, _ = dag.equal_fp(via, got, chk.seed, k)
        chk.decide(ok2, "dispatcher-routing", "eko.gamma.gamma", f"gamma({order}) does not return gamma_qcd_as{order}",
                   where=src.func("eko.gamma.gamma").where, instance=str(order), how="PIT F_p")

    # --- QED and mixed coefficients: exact, exhaustive nf x nl --------------------
    nfs = range(0, 7)
    nls = range(0, 4)
    n_qed = 0
    for n in nfs:
        for fname, ref_f, key in (("beta_qcd_as2aem1", lit.beta_qcd_as2aem1, (2, 1)),
                                  ("beta_qed_aem2as1", lit.beta_qed_aem2as1, (1, 2))):
            f = src.func(f"eko.beta.{fname}")
            ref = ref_f(n)
            n_qed += 1
            try:
                got = dag.as_const(pe.call(f.qname, [n]))
            except (PERaise, ZeroDivisionError) as e:
                chk.fail("coefficient-vs-literature", f.qname, f"{fname}(nf={n}) cannot be evaluated ({type(e).__name__}: {e}); the literature value is {ref}",
                         where=f.where, instance=f"nf={n}")
                continue
            chk.decide(got == ref, "coefficient-vs-literature", f.qname,
                       f"{fname}(nf={n}) = {got} but the literature value is {ref}", where=f.where,
                       instance=f"nf={n}", how="exact")
            disp = "beta_qcd" if key == (2, 1) else "beta_qed"
            via = pe.call(f"eko.beta.{disp}", [key, n] if disp == "beta_qcd" else [key, n, 3])
            chk.decide(dag.as_const(via) == ref, "dispatcher-routing", f"eko.beta.{disp}",
                       f"{disp}({key}, nf={n}) != {fname}", where=src.func(f"eko.beta.{disp}").where,
                       instance=f"{key},nf={n}", how="exact")
        for nl in nls:
            for fname, ref_f, key in (("beta_qed_aem2", lit.beta_qed_aem2, (0, 2)), ("beta_qed_aem3", lit.beta_qed_aem3, (0, 3))):
                f = src.func(f"eko.beta.{fname}")
                got = dag.as_const(pe.call(f.qname, [n, nl]))
                ref = ref_f(n, nl)
                n_qed += 1
                chk.decide(got == ref, "coefficient-vs-literature", f.qname,
                           f"{fname}(nf={n}, nl={nl}) = {got} but the literature value is {ref}", where=f.where,
                           instance=f"nf={n},nl={nl}", how="exact")
                via = pe.call("eko.beta.beta_qed", [key, n, nl])
                chk.decide(dag.as_const(via) == ref, "dispatcher-routing", "eko.beta.beta_qed",
                           f"beta_qed({key}, nf={n}, nl={nl}) != {fname}", where=src.func("eko.beta.beta_qed").where,
                           instance=f"{key},nf={n},nl={nl}", how="exact")

    # --- refusals: keys outside the implemented tables raise ValueError ----------------
    for qn, badkeys, extra in (("eko.beta.beta_qcd", [(6, 0), (1, 0), (3, 1), (2, 2), (0, 2)], [4]),
                               ("eko.beta.beta_qed", [(0, 4), (2, 0), (1, 3), (0, 1)], [4, 3]),
                               ("eko.gamma.gamma", [0, 5, 6], [4])):
        f = src.func(qn)
        for bk in badkeys:
            try:
                r = pe.call(qn, [bk] + extra)
                chk.fail("dispatcher-refusal", qn, f"{qn}({bk}) returns {r!r} instead of raising ValueError",
                         where=f.where, instance=str(bk))
            except PERaise as e:
                chk.decide(e.etype == "ValueError" and bool(e.message), "dispatcher-refusal", qn,
                           f"{qn}({bk}) raises {e.etype} without message", where=f.where, instance=str(bk),
                           detail=f"raises {e.etype}: {e.message}")

    # b_qcd / b_qed are ratios to the leading coefficients
    for n in (3, 4, 5, 6):
        for key in ((3, 0), (4, 0), (5, 0), (2, 1)):
            got = pe.call("eko.beta.b_qcd", [key, n])
            ref = dag.div(pe.call("eko.beta.beta_qcd", [key, n]), pe.call("eko.beta.beta_qcd", [(2, 0), n]))
            ok, _ = dag.equal_fp(got, ref, chk.seed, k)
            chk.decide(ok, "ratio-definition", "eko.beta.b_qcd", f"b_qcd({key},{n}) is not beta_k/beta_0",
                       where=src.func("eko.beta.b_qcd").where, instance=f"{key},nf={n}", how="PIT F_p")
        for key in ((0, 3), (1, 2)):
            got = pe.call("eko.beta.b_qed", [key, n, 3])
            ref = dag.div(pe.call("eko.beta.beta_qed", [key, n, 3]), pe.call("eko.beta.beta_qed", [(0, 2), n, 3]))
            ok, _ = dag.equal_fp(got, ref, chk.seed, k)
            chk.decide(ok, "ratio-definition", "eko.beta.b_qed", f"b_qed({key},{n}) is not beta_k/beta_(0,2)",
                       where=src.func("eko.beta.b_qed").where, instance=f"{key},nf={n}", how="PIT F_p")

    # constants the formulas depend on
    consts = {"NC": 3, "TR": Fraction(1, 2), "CA": 3, "CF": Fraction(4, 3), "eu2": Fraction(4, 9), "ed2": Fraction(1, 9)}
    for name, ref in consts.items():
        got = pe.get_global("eko.constants", name)
        chk.decide(dag.as_const(got) == ref, "constant", f"eko.constants.{name}", f"{name} = {got} (expected {ref})",
                   where="src/eko/constants.py", how="exact")
    chk.floor("coefficient functions compared", 8 + n_qed, 8 + 70)
    chk.note(functions=[f"eko.beta.{v}" for v in names.values()] + [f"eko.gamma.{v}" for v in gnames.values()],
             qed_instances=n_qed, files=["src/eko/beta.py", "src/eko/gamma.py", "src/eko/constants.py"])
    chk.explanation = ("Each coefficient function is partially evaluated with symbolic nf to an exact polynomial and compared "
                       "with the literature polynomial (identity for all nf); QED coefficients exhaustively for nf 0..6, nl 0..3.")
