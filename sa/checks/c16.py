"""C16 - coupling threshold matching follows the decoupling relations."""
from __future__ import annotations

from fractions import Fraction

from .. import alg, dag, literature as lit
from ..arr import Arr
from ..pe import PE, Obj, PERaise, decide_on_values
from ..src import load

LEVEL = "proof"
META = {
    "text": "(a) compute_matching_coeffs_up(POLE|MSBAR, nf) is extracted with symbolic nf; its constant terms c20, c30(nf) are compared "
            "with the published values (Chetyrkin-Kniehl-Steinhauser 1997, Schroeder-Steinhauser 2005) and ALL its logarithmic "
            "coefficients c_nk, k>=1, with the values the checker derives from renormalisation-group invariance of a^(nf), a^(nf+1) "
            "(and of the MSbar mass in the MSBAR scheme), using the literature beta and gamma_m coefficients. (b) Couplings.a is "
            "partially evaluated with a symbolic state and mocked path/solver for every (scheme, order, nf, direction): the matching "
            "factor applied at each threshold is proved to be 1 + sum_{n<order} a^n sum_k c_nk L^k with L the log of the ratio of the "
            "quark being crossed, the table taken at the nf of the lower patch, upward or its perturbative inverse downward (so a "
            "round trip is the identity through the implemented order), and to be exactly 1 at LO, and at NLO for unit ratio."
            " With the reference point ON a matching scale (empty first segment) the evolution beyond the wall starts from a_ref times the matching factor."
            " Paths with two thresholds and one coupling object asked in both flavour directions are evaluated at N3LO with matching tables whose entries are tagged by direction and flavour number: every wall is matched with its own table (nothing remembered from another wall or an earlier request).",
    "note": "Decides the formulas and wiring of the matching, not the numerical coupling. Literature constants are decimal in the "
            "source (340.729...), compared within 2e-6 relative; rational entries exactly.",
    "technique": "partial evaluation with mocked collaborators + RG-invariance derivation (sympy linear solve) + polynomial identity testing",
    "engine": "sa",
}

CP = "eko.couplings"

# constants c_n0 for a^(nf+1) = a^(nf) (1 + sum a^n c_nk L^k), a = alpha_s/4pi, L = ln(mu^2/m^2)
#   POLE : inverse of CKS hep-ph/9706430 eq. (25):  1/zeta_g^2|OS = 1 + 7/24 (as/pi)^2 + (5.32389 - 0.262471 nl)(as/pi)^3 at mu = M
#   MSBAR: inverse of CKS eq. (20)/(22) at mu = m(m):        1 - 11/72 (as/pi)^2 + (-0.972057 + 0.0846515 nl)(as/pi)^3
LIT_CONST = {
    "POLE": {(2, 0): Fraction(7, 24) * 16, (3, 0): (Fraction("5.32389") * 64, Fraction("-0.262471") * 64)},
    "MSBAR": {(2, 0): Fraction(-11, 72) * 16, (3, 0): (Fraction("-0.972057") * 64, Fraction("0.0846515") * 64)},
}


def derive_logs(scheme: str, c20, c30):
    """RG invariance: d/dt [a + sum a^(n+1) c_nk L^k] = beta^(nf+1)(a'), da/dt = beta^(nf)(a), dL/dt = 1 (POLE) or
    1 + 2 gamma_m^(nf+1)(a') (MSBAR, L = ln mu^2/m(mu)^2).  Solve for c_nk, k >= 1 (sympy, exact)."""
    import sympy as sp

    a, L, nf = sp.symbols("a L nf")
    z = {"zeta": lambda x: sp.zeta(x)}

    def beta(n):
        return [dag.to_sympy(lit.BETA_QCD[(2 + i, 0)][0], {"nf": n}, z) for i in range(3)]

    def gm(n):
        return [dag.to_sympy(lit.GAMMA_QCD[i + 1][0], {"nf": n}, z) for i in range(2)]

    c = {(n, k): sp.Symbol(f"c{n}{k}") for n in range(1, 4) for k in range(0, n + 1)}
    # truncated polynomial arithmetic in (a, L): dict {(i, j): coefficient}, a-degree < 5
    N = 5

    def tmul(p, q):
        r = {}
        for (i1, j1), v1 in p.items():
            for (i2, j2), v2 in q.items():
                if i1 + i2 < N:
                    key = (i1 + i2, j1 + j2)
                    r[key] = r.get(key, 0) + v1 * v2
        return r

    def tadd(p, q, s=1):
        r = dict(p)
        for k_, v in q.items():
            r[k_] = r.get(k_, 0) + s * v
        return r

    def tpow(p, n):
        r = {(0, 0): sp.Integer(1)}
        for _ in range(n):
            r = tmul(r, p)
        return r

    def tscale(p, s):
        return {k_: s * v for k_, v in p.items()}

    ap = {(1, 0): sp.Integer(1)}
    for (n, k), s in c.items():
        ap[(n + 1, k)] = s
    bl, bh = beta(nf), beta(nf + 1)
    dadt = {(i + 2, 0): -bl[i] for i in range(3)}
    dLdt = {(0, 0): sp.Integer(1)}
    if scheme == "MSBAR":
        g = gm(nf + 1)
        dLdt = tadd(dLdt, tadd(tscale(ap, 2 * g[0]), tscale(tpow(ap, 2), 2 * g[1])))
    lhs = {}
    for i in range(3):
        lhs = tadd(lhs, tscale(tpow(ap, i + 2), -bh[i]))
    dap_da = {(i - 1, j): i * v for (i, j), v in ap.items() if i >= 1}
    dap_dL = {(i, j - 1): j * v for (i, j), v in ap.items() if j >= 1}
    rhs = tadd(tmul(dap_da, dadt), tmul(dap_dL, dLdt))
    res = tadd(lhs, rhs, -1)
    eqs = [sp.expand(v) for v in res.values() if sp.expand(v) != 0]
    unknown = [c[n, k] for (n, k) in c if k >= 1]
    sol = sp.solve(eqs, unknown, dict=True)
    assert len(sol) == 1
    out = {}
    subs = {c[1, 0]: 0, c[2, 0]: c20, c[3, 0]: c30}
    for (n, k) in c:
        if k >= 1:
            out[(n, k)] = sp.expand(sol[0][c[n, k]].subs(subs))
    return out, nf


def run(chk):
    import sympy as sp

    src = load()
    pe = PE(src)
    chk.trusted += ["sa/literature.py", "sympy linear solve", "random interpretation in F_p"]
    chk.rule_text = "table == literature constants + RG-derived logs; matching factor in Couplings.a wired to the right table/ratio"
    nfs = dag.sym("nf")
    fu = src.func(f"{CP}.compute_matching_coeffs_up")
    tables = {}
    # ---------------------------------------------------------------- (a) the tables
    for scheme in ("POLE", "MSBAR"):
        T = pe.call(fu.qname, [scheme, nfs])
        chk.need(isinstance(T, Arr) and T.shape == (4, 4), "compute_matching_coeffs_up no longer returns a 4x4 table")
        tables[scheme] = T
        got = {(n, k): sp.expand(dag.to_sympy(T[n, k])) for n in range(4) for k in range(4)}
        nf_s = sp.Symbol("nf")
        # constants
        c20 = sp.Rational(LIT_CONST[scheme][(2, 0)].numerator, LIT_CONST[scheme][(2, 0)].denominator)
        chk.decide(got[(2, 0)] == c20, "decoupling-constant-vs-literature", fu.qname,
                   f"{scheme}: c20 = {got[(2, 0)]} but the published two-loop constant is {c20}", where=fu.where,
                   instance=f"{scheme},c20", detail=f"c20 == {c20}")
        l0, l1 = LIT_CONST[scheme][(3, 0)]
        g0, g1 = got[(3, 0)].coeff(nf_s, 0), got[(3, 0)].coeff(nf_s, 1)
        ok30 = abs(float(g0) - float(l0)) <= 2e-6 * abs(float(l0)) + 1e-4 and abs(float(g1) - float(l1)) <= 2e-6 * abs(float(l1)) + 1e-4 \
            and sp.degree(got[(3, 0)], nf_s) <= 1
        chk.decide(ok30, "decoupling-constant-vs-literature", fu.qname,
                   f"{scheme}: c30 = {got[(3, 0)]} but the published three-loop constant is {float(l0):.4f} + {float(l1):.4f} nf",
                   where=fu.where, instance=f"{scheme},c30", detail=f"c30 == {float(l0):.3f} + {float(l1):.4f} nf")
        chk.decide(got[(1, 0)] == 0 and got[(0, 0)] == 0, "decoupling-constant-vs-literature", fu.qname,
                   f"{scheme}: c10 = {got[(1, 0)]} must vanish (continuity at NLO)", where=fu.where, instance=f"{scheme},c10")
        # logs from RG invariance, with the TREE's own constants (so only the log structure is decided here)
        logs, nf_sym = derive_logs(scheme, got[(2, 0)], got[(3, 0)])
        for (n, k), want in sorted(logs.items()):
            want = sp.expand(want.subs(nf_sym, nf_s))
            chk.decide(sp.simplify(got[(n, k)] - want) == 0, "log-coefficient-vs-rg-invariance", fu.qname,
                       f"{scheme}: c{n}{k} = {got[(n, k)]} but renormalisation-group invariance of both couplings"
                       f"{' and of the MSbar mass' if scheme == 'MSBAR' else ''} requires {want}", where=fu.where,
                       instance=f"{scheme},c{n}{k}", data={"source": str(got[(n, k)]), "required": str(want)},
                       detail=f"c{n}{k} == {want}", how="RG derivation (sympy)")
        # unused slots are zero
        for n in range(4):
            for k in range(4):
                if k > n or n == 0:
                    chk.decide(got[(n, k)] == 0, "table-shape", fu.qname, f"{scheme}: entry [{n},{k}] must be zero",
                               where=fu.where, instance=f"{scheme},[{n},{k}]")

    # ---------------------------------------------------------------- (b) wiring in Couplings.a
    cls = src.cls(f"{CP}.Couplings")
    fa = src.func(f"{CP}.Couplings.a")
    seg_cls = src.cls("eko.matchings.Segment")
    ratios = [dag.sym("k_c"), dag.sym("k_b"), dag.sym("k_t")]
    n_inst = 0
    for scheme in ("POLE", "MSBAR"):
        for order in (1, 2, 3, 4):
            for nf_low in (3, 4, 5):
                # the direction in FLAVOUR NUMBER decides the matching; the direction in SCALE of the segment that reaches the wall is
                # independent of it (a reference quoted outside its own patch first walks back to the wall): both are instantiated
                for direction, walk in (("up", "natural"), ("down", "natural"), ("up", "from beyond the wall"), ("down", "from beyond the wall")):
                    if walk != "natural" and (order not in (2, 3) or scheme != "POLE"):
                        continue
                    inst = f"{scheme},order={order},{nf_low}{'->' if direction == 'up' else '<-'}{nf_low + 1}" + ("" if walk == "natural" else ",reference " + walk)
                    rising = (direction == "up") == (walk == "natural")      # the first segment runs towards higher scales
                    scale_rep = {"wall": Fraction(2), "mu0": Fraction(1) if rising else Fraction(3),
                                 "mu1": Fraction(4) if direction == "up" else Fraction(1, 2)}
                    n_inst += 1
                    self_ = Obj(cls)
                    aref = Arr.from_nested([dag.sym("a_ref"), dag.sym("aem_ref")])
                    self_.attrs.update(a_ref=aref, order=(order, 0), hqm_scheme=scheme, thresholds_ratios=list(ratios),
                                       atlas=Obj(src.cls("eko.matchings.Atlas")), cache={}, method="expanded",
                                       alphaem_running=False, decoupled_running=False)
                    nf_a, nf_b = (nf_low, nf_low + 1) if direction == "up" else (nf_low + 1, nf_low)
                    s1 = pe.instantiate(seg_cls.qname, [dag.sym("mu0"), dag.sym("wall"), nf_a])
                    s2 = pe.instantiate(seg_cls.qname, [dag.sym("wall"), dag.sym("mu1"), nf_b])
                    calls = []

                    def compute_model(pe_, args, kwargs, calls=calls):
                        calls.append(args)
                        i = len(calls)
                        return Arr.from_nested([dag.sym(f"A{i}"), dag.sym(f"AEM{i}")])

                    pe.overrides[f"{CP}.Couplings.compute"] = compute_model
                    pe.overrides["eko.matchings.Atlas.path"] = lambda pe_, args, kwargs: [s1, s2]
                    pe.overrides["eko.matchings.lepton_number"] = lambda pe_, args, kwargs: 3
                    # named regime: both segments have non-negligible length
                    # distinct symbolic scales are not close; their order is the one of the instance
                    pe.assume = lambda text, env, pe=pe, scale_rep=scale_rep: decide_on_values(pe, text, env) if "isclose" in text \
                        else decide_on_values(pe, text, env, scale_rep, generic=False)
                    pe.order_rep = lambda scale_rep=scale_rep: scale_rep
                    try:
                        out = pe.apply(pe.getattr(self_, "a"), [dag.sym("mu1"), nf_b], {})
                    except PERaise as e:
                        chk.fail("matching-wiring", fa.qname, f"Couplings.a raises {e} ({inst})", where=fa.where, instance=inst)
                        continue
                    finally:
                        pe.assume = None
                        pe.order_rep = None
                        for q in (f"{CP}.Couplings.compute", "eko.matchings.Atlas.path", "eko.matchings.lepton_number"):
                            pe.overrides.pop(q, None)
                    chk.need(len(calls) == 2, f"expected two solver calls along a two-segment path, saw {len(calls)} ({inst})")
                    # the value handed to the second solve is A1 * matching factor
                    a_in = calls[1][1][0]
                    A1 = dag.sym("A1")
                    L = dag.fn("log", ratios[nf_low + 1 - 4])  # quark being crossed = nf_low+1
                    T = tables[scheme]
                    Tn = Arr([dag.substitute(dag.tonode(x), {"nf": nf_low}) for x in T.flat()], T.shape)
                    if direction == "down":
                        # reference: perturbative inverse derived in the checker (series inversion), same lower-patch nf
                        Tn = _invert_series(Tn)
                    fact = dag.addn([dag.ONE] + [dag.mul(dag.mul(Tn[n, k], dag.power(L, k)), dag.power(A1, n))
                                                 for n in range(1, order) for k in range(0, n + 1)])
                    want = dag.mul(A1, fact)
                    ok, info = dag.is_zero_fp([dag.sub(a_in, want)], chk.seed, 3)
                    chk.decide(ok, "matching-wiring", fa.qname,
                               f"matching factor at the {'up' if direction == 'up' else 'down'}ward crossing is "
                               f"{dag.short(dag.div(a_in, A1), 260)}; required 1 + sum_(n<{order}) a^n c_nk L^k with the "
                               f"{'upward' if direction == 'up' else 'inverse'} table at nf={nf_low} and L = ln k_(quark {nf_low + 1}) ({inst})",
                               where=fa.where, instance=inst, data={"witness": info, "got": dag.to_str(dag.tonode(a_in))[:500],
                                                                    "want": dag.to_str(want)[:500]}, how="PE + PIT F_p")
                    # a_em is untouched by the matching
                    ok2, _ = dag.is_zero_fp([dag.sub(calls[1][1][1], dag.sym("AEM1"))], chk.seed, 2)
                    chk.decide(ok2, "matching-wiring", fa.qname, f"the electromagnetic coupling is modified by the QCD matching ({inst})",
                               where=fa.where, instance=inst + ",aem")
                    # continuity
                    if order == 1:
                        ok3, _ = dag.is_zero_fp([dag.sub(a_in, A1)], chk.seed, 2)
                        chk.decide(ok3, "continuity-at-low-order", fa.qname, f"coupling is not continuous at LO ({inst})", where=fa.where,
                                   instance=inst)
                    if order == 2:
                        at1 = dag.substitute(dag.tonode(a_in), {r.payload: 1 for r in ratios})
                        ok3, _ = dag.is_zero_fp([dag.sub(at1, A1)], chk.seed, 2)
                        chk.decide(ok3, "continuity-at-low-order", fa.qname, f"coupling is not continuous at NLO for unit ratio ({inst})",
                                   where=fa.where, instance=inst)
    tables_per_wall(chk, src)
    # ---------------------------------------------------------------- (c) reference exactly on a matching scale, evaluated twice
    # the first segment has zero length and is skipped, the matching acts directly on the reference values: the stored boundary
    # condition must not be touched (the decoupling relation depends on the path only, not on how often it was evaluated)
    n_rep = 0
    for scheme in ("POLE", "MSBAR"):
        for order in (2, 3, 4):
            for nf_low, direction in ((3, "up"), (4, "up"), (4, "down"), (5, "down")):
                inst = f"{scheme},order={order},reference on the wall,{nf_low}{'->' if direction == 'up' else '<-'}{nf_low + 1}"
                self_ = Obj(cls)
                aref = Arr.from_nested([dag.sym("a_ref"), dag.sym("aem_ref")])
                self_.attrs.update(a_ref=aref, order=(order, 0), hqm_scheme=scheme, thresholds_ratios=list(ratios),
                                   atlas=Obj(src.cls("eko.matchings.Atlas")), cache={}, method="expanded", alphaem_running=False, decoupled_running=False)
                nf_a, nf_b = (nf_low, nf_low + 1) if direction == "up" else (nf_low + 1, nf_low)
                s1 = pe.instantiate(seg_cls.qname, [dag.sym("wall"), dag.sym("wall"), nf_a])
                s2 = pe.instantiate(seg_cls.qname, [dag.sym("wall"), dag.sym("mu1"), nf_b])
                calls = []

                def compute_model2(pe_, args, kwargs, calls=calls):
                    calls.append([args[1].copy() if isinstance(args[1], Arr) else args[1]] + list(args[2:]))
                    return Arr.from_nested([dag.sym("A"), dag.sym("AEM")])

                def assume(text, env):
                    # the first segment (wall -> wall) is decided by the evaluator itself (identical scales are close); the second has
                    # non-negligible length
                    return decide_on_values(pe, text, env) if "isclose" in text else None

                pe.overrides[f"{CP}.Couplings.compute"] = compute_model2
                pe.overrides["eko.matchings.Atlas.path"] = lambda pe_, args, kwargs: [s1, s2]
                pe.overrides["eko.matchings.lepton_number"] = lambda pe_, args, kwargs: 3
                pe.assume = assume
                try:
                    pe.apply(pe.getattr(self_, "a"), [dag.sym("mu1"), nf_b], {})
                    pe.apply(pe.getattr(self_, "a"), [dag.sym("mu1"), nf_b], {})
                except PERaise as e:
                    chk.fail("matching-is-path-dependent-only", fa.qname, f"Couplings.a raises {e} ({inst})", where=fa.where, instance=inst)
                    continue
                finally:
                    pe.assume = None
                    for q in (f"{CP}.Couplings.compute", "eko.matchings.Atlas.path", "eko.matchings.lepton_number"):
                        pe.overrides.pop(q, None)
                n_rep += 1
                ref_now = self_.attrs["a_ref"]
                same_ref = isinstance(ref_now, Arr) and dag.tonode(ref_now[0]) is dag.sym("a_ref") and dag.tonode(ref_now[1]) is dag.sym("aem_ref")
                same_in = len(calls) == 2 and dag.is_zero_fp([dag.sub(dag.tonode(calls[0][0][0]), dag.tonode(calls[1][0][0]))], chk.seed, 2)[0]
                chk.decide(same_ref and same_in, "matching-is-path-dependent-only", fa.qname,
                           f"{inst}: after one evaluation the stored reference coupling is "
                           f"{dag.short(dag.tonode(ref_now[0])) if isinstance(ref_now, Arr) else ref_now} (must stay a_ref) and the second evaluation "
                           f"starts from {dag.short(dag.tonode(calls[1][0][0])) if len(calls) == 2 else '?'}: the matching factor is applied in place to "
                           f"the boundary condition, so the ratio across the threshold becomes fact^2, fact^3, ... with the number of calls",
                           where=fa.where, instance=inst, how="PE, same object evaluated twice")
                # ... and the matching is applied although the segment in front of it has no length: the evolution above / below the
                # wall starts from a_ref * matching factor
                if calls:
                    a_in = dag.tonode(calls[0][0][0])
                    Aref = dag.sym("a_ref")
                    L = dag.fn("log", ratios[nf_low + 1 - 4])
                    T = tables[scheme]
                    Tn = Arr([dag.substitute(dag.tonode(x), {"nf": nf_low}) for x in T.flat()], T.shape)
                    if direction == "down":
                        Tn = _invert_series(Tn)
                    fact = dag.addn([dag.ONE] + [dag.mul(dag.mul(Tn[n, k], dag.power(L, k)), dag.power(Aref, n))
                                                 for n in range(1, order) for k in range(0, n + 1)])
                    okw, infow = dag.is_zero_fp([dag.sub(a_in, dag.mul(Aref, fact))], chk.seed, 3)
                    chk.decide(okw and len(calls) == 2, "matching-wiring", fa.qname,
                               f"{inst}: the evolution beyond the wall starts from a_ref * ({dag.short(dag.div(a_in, Aref), 200)}) after "
                               f"{len(calls)} solver call(s) in two evaluations; required a_ref * (1 + sum_(n<{order}) a^n c_nk L^k): a reference "
                               f"point on the matching scale skips the (empty) evolution in front of the wall, never the matching itself",
                               where=fa.where, instance=inst + ",factor", data={"witness": infow}, how="PE + PIT F_p")
                else:
                    chk.fail("matching-wiring", fa.qname, f"{inst}: no solver call at all - the path beyond the wall is not evolved", where=fa.where,
                             instance=inst + ",factor")
    chk.floor("repeated-evaluation instances", n_rep, 20)
    chk.floor("wiring instances", n_inst, 48)
    chk.note(instances=n_inst, files=["src/eko/couplings.py", "src/eko/matchings.py"])
    chk.explanation = ("Decoupling tables compared with literature constants and RG-derived logarithms; the matching step of "
                       "Couplings.a extracted for every scheme/order/threshold/direction and compared with the required series.")


def tables_per_wall(chk, src, rule="every-wall-is-matched-with-its-own-table"):
    """Couplings.a along paths with TWO thresholds, and one object asked in both flavour directions one after the other (order 4, the
    only order at which the tables depend on nf): the factor applied at a wall is built from the table of THAT wall - upward the table
    of the flavour number being left, downward the inverse table of the flavour number being entered.  compute_matching_coeffs_up /
    _down are recording stand-ins whose entries are symbols tagged with direction and flavour number (shared with C22)."""
    from ..pe import decide_on_values

    cls = src.cls(f"{CP}.Couplings")
    fa = src.func(f"{CP}.Couplings.a")
    seg_cls = src.cls("eko.matchings.Segment")
    n_cases = 0

    def table(tag):
        return lambda p, a, k: Arr.from_nested([[dag.sym(f"{tag}{a[1]}_{n}{m}") if (0 < n and m <= n) else 0 for m in range(4)] for n in range(4)])

    def run_path(pe, self_, nfs, scales):
        segs = [pe.instantiate(seg_cls.qname, [dag.sym(scales[i]), dag.sym(scales[i + 1]), nf]) for i, nf in enumerate(nfs)]
        calls = []
        pe.overrides[f"{CP}.Couplings.compute"] = lambda p_, a, k: calls.append(a) or Arr.from_nested([dag.sym(f"A{len(calls)}"), dag.sym(f"AEM{len(calls)}")])
        pe.overrides["eko.matchings.Atlas.path"] = lambda p_, a, k: list(segs)
        rising = nfs[-1] > nfs[0]
        rep = {sc: Fraction(i + 1) if rising else Fraction(10 - i) for i, sc in enumerate(scales)}
        pe.assume = lambda text, env: decide_on_values(pe, text, env) if "isclose" in text else decide_on_values(pe, text, env, rep, generic=False)
        pe.order_rep = lambda: rep
        try:
            pe.apply(pe.getattr(self_, "a"), [dag.sym(scales[-1]), nfs[-1]], {})
        finally:
            pe.assume = None
            pe.order_rep = None
        return calls

    def new_pe():
        pe = PE(src)
        pe.overrides[f"{CP}.compute_matching_coeffs_up"] = table("U")
        pe.overrides[f"{CP}.compute_matching_coeffs_down"] = table("D")
        pe.overrides["eko.matchings.lepton_number"] = lambda p_, a, k: 3
        return pe

    def new_self(pe):
        self_ = Obj(cls)
        self_.attrs.update(a_ref=Arr.from_nested([dag.sym("a_ref"), dag.sym("aem_ref")]), order=(4, 0), hqm_scheme="POLE",
                           thresholds_ratios=[dag.sym("k_c"), dag.sym("k_b"), dag.sym("k_t")], atlas=Obj(src.cls("eko.matchings.Atlas")), cache={},
                           method="expanded", alphaem_running=False, decoupled_running=False)
        return self_

    def judge(calls, nfs, inst):
        """the value handed to solver call i+1 carries table symbols of wall i only"""
        for i in range(1, len(nfs)):
            up = nfs[i] > nfs[i - 1]
            own = f"{'U' if up else 'D'}{min(nfs[i], nfs[i - 1])}_"
            if len(calls) <= i:
                return f"only {len(calls)} solver calls along a path of {len(nfs)} segments"
            tabs = {s_ for s_ in dag.symbols(dag.tonode(calls[i][1][0])) if s_[:1] in "UD" and "_" in s_ and s_[1:2].isdigit()}
            # an upward table may legitimately be inverted by the library itself: U-symbols of the right nf count as the wall's own
            alt = f"U{min(nfs[i], nfs[i - 1])}_"
            foreign = sorted(t for t in tabs if not t.startswith(own) and not t.startswith(alt))
            if foreign or not tabs:
                return (f"the factor at the wall between nf={nfs[i - 1]} and nf={nfs[i]} is built from the table entries {foreign[:4] or 'of no table'}; "
                        f"required entries of the table for {min(nfs[i], nfs[i - 1])} light flavours ({own}..)")
        return None

    try:
        for nfs in ((3, 4, 5), (4, 5, 6), (5, 4, 3), (6, 5, 4)):
            pe = new_pe()
            why = judge(run_path(pe, new_self(pe), nfs, ["s0", "s1", "s2", "s3"]), nfs, "")
            n_cases += 1
            chk.decide(why is None, rule, fa.qname, f"path nf {' -> '.join(map(str, nfs))} at N3LO: {why}", where=fa.where, instance=f"two walls,{nfs}",
                       how="PE with tagged matching tables")
        for first, second in (((4, 5), (4, 3)), ((4, 3), (4, 5)), ((5, 6), (5, 4)), ((5, 4), (5, 6))):
            pe = new_pe()
            self_ = new_self(pe)
            why = judge(run_path(pe, self_, first, ["s0", "s1", "s2"]), first, "")
            why2 = judge(run_path(pe, self_, second, ["s0", "t1", "t2"]), second, "")
            n_cases += 1
            chk.decide(why is None and why2 is None, rule, fa.qname,
                       f"one coupling object asked for nf {first[0]} -> {first[1]} and then for nf {second[0]} -> {second[1]} at N3LO: {why or why2} "
                       f"(something computed for the first request is remembered)", where=fa.where, instance=f"one object,{first},{second}",
                       how="PE with tagged matching tables, two requests on one object")
    except PERaise as e:
        chk.fail(rule, fa.qname, f"Couplings.a raises {e}", where=fa.where, instance="raises")
    chk.floor("paths with tagged tables", n_cases, 8)


def _invert_series(T: Arr) -> Arr:
    """perturbative inverse d of a' = a(1 + sum a^n c_nk L^k), derived by series reversion in the checker"""
    L = dag.sym("__L")
    N = 4
    # g(a) as Poly2 in (a, L)
    g = alg.Poly2(N, {(1, 0): dag.ONE})
    for n in range(1, 4):
        for k in range(0, n + 1):
            g.t[(n + 1, k)] = dag.tonode(T[n, k])
    # f = a + sum d_n(L) a^(n+1), solve f(g(a)) = a order by order
    d = {}
    f_of_g = alg.Poly2(N).add(g)
    for n in range(1, 4):
        # coefficient of a^(n+1) so far
        cur = {k: v for (i, k), v in f_of_g.t.items() if i == n + 1}
        dn = {k: dag.neg(v) for k, v in cur.items()}
        d[n] = dn
        term = g.power(n + 1)
        for k, v in dn.items():
            f_of_g = f_of_g.add(alg.Poly2(N, {(i, j + k): dag.mul(v, c) for (i, j), c in term.t.items()}))
    out = Arr.full((4, 4), 0)
    for n, dn in d.items():
        for k, v in dn.items():
            if k <= 3:
                out[n, k] = v
    return out
