"""C18 - MSbar heavy-quark masses: computability, running kernels, decoupling across matching scales, consistency guards."""
from __future__ import annotations

import ast
import itertools
from fractions import Fraction

from .. import dag, effects as E, literature as lit
from ..arr import Arr
from ..pe import PE, Obj, PERaise, Opaque, named_arguments
from ..series import valuation_at_least
from ..src import load

LEVEL = "other"
META = {
    "text": "The fixed point m(m) = m itself is found by a numerical root finder and is not decided. Decided: (1) COMPUTABLE: values "
            "that scipy's fsolve hands to its callback, and its result, are 1-d arrays; the callback scalarises its argument "
            "before anything else uses it and the result is scalarised before float() - otherwise NumPy 2 refuses the "
            "conversion deep inside the couplings (array-shape lint on the fsolve call site). (2) RUNNING KERNELS: ker_exact "
            "integrates gamma_m(a)/(a beta-series(a)) from a0 to a1 and exponentiates (integrand and limits extracted by partial "
            "evaluation, orders 1-4); ker_expanded's logarithmic derivative in a1 equals that integrand up to the working order "
            "(Laurent-series valuation over F_p). (3) DECOUPLING: evolve, partially evaluated across one and two matching "
            "scales upward and downward with a symbolic coupling, applies at each crossing 1 + sum_{p=1}^{order-1} a'^p "
            "sum_{l=0}^{p} L^l c[p,l] - all powers of the logarithm - with a' the coupling of the scheme with more flavours at "
            "the matching scale and L the logarithm of the ratio of the crossed quark; the upward table equals the literature "
            "constants and its logarithmic coefficients are exactly those that renormalisation-group invariance derives from "
            "beta, gamma_m and the coupling's own decoupling (sympy, symbolic nf), the downward table is the series inverse. "
            "Because the squared mass is evolved, the factor must enter squared (known finding) and the mass path must switch "
            "flavour number where the coupling does (known finding). (4) GUARDS: the four documented inconsistency conditions of "
            "compute raise ValueError exactly in their case (truth table over the orderings of Qm, m and Qref per quark and "
            "reference nf), a mass given at its own scale is taken as is, the result is returned sorted and unsorted results "
            "are refused. (5) PATCH BOOKKEEPING: for every consistent placement of the three reference scales between the masses "
            "and the coupling reference (nf_ref 3-6), compute - with recording mocks for evolve, solve and Couplings - evolves a "
            "reference mass from the patch its scale lies in (3 + thresholds below Qm) to the wall of the patch adjoining its own "
            "threshold on the side of the coupling reference, solves there with that patch's nf, and builds each coupling from "
            "the masses found so far."
            " Instances with the reference scale on a matching scale (empty first segment, decoupling still applied) are included."
            " runcards.masses asked for xif = 1, 2, 1/2, 1 in one evaluator (recording fixed-point solver): every answer comes from a computation with the xif of that call.",
    "note": "Level 'other': the root itself is not decided; two known findings in the decoupling step.",
    "technique": "array-shape lint at the fsolve call site; partial evaluation with mocked quadrature/coupling + series valuation; RG derivation with sympy; truth table by exhaustive PE",
    "engine": "sa",
}

MM = "eko.msbar_masses"
SCALARISERS = ("np.ravel", "np.squeeze", "np.asarray", ".item()", "[0]", "float(")


def _scalarised_first(fn_node, pname):
    """the first statement touching `pname` rebinds it to a scalarised value"""
    for st in fn_node.body:
        if isinstance(st, ast.Expr) and isinstance(st.value, ast.Constant):
            continue
        names = [n for n in ast.walk(st) if isinstance(n, ast.Name) and n.id == pname]
        if not names:
            continue
        if isinstance(st, ast.Assign) and len(st.targets) == 1 and isinstance(st.targets[0], ast.Name) and st.targets[0].id == pname:
            t = ast.unparse(st.value)
            return ("[0]" in t or ".item()" in t or "np.squeeze" in t or t.startswith("float(")) and pname in t
        return False
    return True


def rg_logs():
    """z_nk (k >= 1) of ln-free form  m' = m (1 + sum a'^n z_nk L^k)  from RG invariance (L built with the running heavy mass, as
    the coupling decoupling of the tree), in terms of z20, z30; sympy, symbolic nf."""
    import sympy as sp

    a, L, nf = sp.symbols("a L nf")
    z = {"zeta": lambda x: sp.zeta(x)}

    def beta(n):
        return [dag.to_sympy(lit.BETA_QCD[(2 + i, 0)][0], {"nf": n}, z) for i in range(3)]

    def gm(n):
        return [dag.to_sympy(lit.GAMMA_QCD[i + 1][0], {"nf": n}, z) for i in range(3)]

    zz = {(n, k): sp.Symbol(f"z{n}{k}") for n in (2, 3) for k in range(n + 1)}
    c11, c20, c21, c22 = sp.symbols("c11 c20 c21 c22")
    al = a + a ** 2 * (-c11 * L) + a ** 3 * (-c20 - c21 * L + (2 * c11 ** 2 - c22) * L ** 2)
    Z = 1 + sum(a ** n * zz[n, k] * L ** k for (n, k) in zz)
    gl, gh, bh = gm(nf), gm(nf + 1), beta(nf + 1)
    dadt = -sum(bh[i] * a ** (i + 2) for i in range(3))
    dLdt = 1 + 2 * (gh[0] * a + gh[1] * a ** 2)
    lhs = -sum(gh[i] * a ** (i + 1) for i in range(3))
    rhs = -sum(gl[i] * al ** (i + 1) for i in range(3)) + (sp.diff(Z, a) * dadt + sp.diff(Z, L) * dLdt) / Z
    res = sp.expand(sp.series(sp.expand(sp.series(lhs - rhs, a, 0, 4).removeO()), a, 0, 4).removeO())
    P = sp.Poly(res, a, L)
    unknown = [zz[n, k] for (n, k) in zz if k >= 1]
    sol = sp.solve(P.coeffs(), unknown, dict=True)
    assert len(sol) == 1
    return {k: sol[0][zz[k]] for k in zz if k[1] >= 1}, (nf, zz, (c11, c20, c21, c22))


def run(chk):
    import sympy as sp

    src = load()
    chk.rule_text = "fsolve arrays scalarised; kernels integrate gamma_m/beta; decoupling with all log powers, RG-derived logs, squared on m^2; guards"
    chk.trusted += ["sa/literature.py", "sympy series/solve"]
    # ---- (1) array-shape lint -------------------------------------------------------------------------------------------------
    fsol = src.func(f"{MM}.solve")
    calls = [c for c in src.calls_in(fsol) if (src.dotted(c.func) or "").endswith("fsolve")]
    chk.need(len(calls) == 1, "solve no longer calls fsolve exactly once")
    cb = calls[0].args[0]
    cbf = next((f for q, f in src.funcs.items() if f.parent is fsol and isinstance(cb, ast.Name) and f.node.name == cb.id), None)
    chk.need(cbf is not None, "fsolve callback is no longer a local function of solve")
    p0 = cbf.params[0]
    chk.decide(_scalarised_first(cbf.node, p0), "fsolve-arrays-are-scalarised", cbf.qname, f"the callback passes fsolve's 1-d array `{p0}` on without "
               f"scalarising it first: it reaches float() in Couplings.compute, which NumPy 2 refuses for arrays", where=cbf.where, instance="callback")
    holder = next((st.targets[0].id for st in ast.walk(fsol.node) if isinstance(st, ast.Assign) and st.value is calls[0]
                   and isinstance(st.targets[0], ast.Name)), None)
    bad = []
    for n in ast.walk(fsol.node):
        if isinstance(n, ast.Call) and isinstance(n.func, ast.Name) and n.func.id == "float" and n.args and isinstance(n.args[0], ast.Name) \
                and n.args[0].id == holder:
            bad.append(n.lineno)
    rets = [ast.unparse(r.value) for r in ast.walk(fsol.node) if isinstance(r, ast.Return) and r.value is not None and holder and holder in ast.unparse(r.value)]
    chk.decide(holder is not None and not bad and all(any(s in r for s in ("[0]", ".item()", "squeeze")) for r in rets) and rets,
               "fsolve-arrays-are-scalarised", fsol.qname, f"fsolve's result (a 1-d array) is converted with float() as it is (lines {bad}, returns {rets})",
               where=fsol.where, instance="result")
    # ---- (2) kernels ---------------------------------------------------------------------------------------------------------------
    fke = src.func(f"{MM}.ker_exact")
    fkx = src.func(f"{MM}.ker_expanded")
    a0, a1, av = dag.sym("as0"), dag.sym("as1"), dag.sym("a")
    nfv = 4
    betas = [dag.substitute(lit.BETA_QCD[(2 + i, 0)][0], {"nf": nfv}) for i in range(4)]
    gammas = [dag.substitute(lit.GAMMA_QCD[i + 1][0], {"nf": nfv}) for i in range(4)]

    def ratio(x, n):
        return dag.div(dag.addn([dag.mul(gammas[k], dag.power(x, k)) for k in range(n)]),
                       dag.mul(x, dag.addn([dag.mul(betas[k], dag.power(x, k)) for k in range(n)])))

    for n in (1, 2, 3, 4):
        pe = PE(src)
        cap = {}

        def quad(p, a, k, cap=cap):
            f, lo, hi = a[0], a[1], a[2]
            extra = k.get("args", ())
            cap.update(lo=lo, hi=hi, expr=p.apply(f, [av] + list(extra), {}))
            return (dag.sym("INTEGRAL"), 0)

        pe.ext["scipy.integrate.quad"] = quad
        try:
            res = pe.call(fke.qname, [a0, a1, (n, 0), nfv])
        except PERaise as e:
            chk.fail("exact-kernel-integrates-gamma-over-beta", fke.qname, f"order {n}: raises {e}", where=fke.where, instance=str(n))
            continue
        ok = cap.get("lo") is a0 and cap.get("hi") is a1 and dag.tonode(res) is dag.fn("exp", dag.sym("INTEGRAL"))
        z, info = dag.is_zero_fp([dag.sub(dag.tonode(cap.get("expr", 0)), ratio(av, n))], chk.seed, 2)
        chk.decide(ok and z, "exact-kernel-integrates-gamma-over-beta", fke.qname, f"order {n}: the kernel is not exp of the integral from a0 to a1 of "
                   f"(sum_k gamma_k a^k)/(a sum_k beta_k a^k) with k < {n}", where=fke.where, instance=str(n), data={"witness": info},
                   how="PE with mocked quadrature + PIT")
        pe = PE(src)
        try:
            kx = pe.call(fkx.qname, [a0, a1, (n, 0), nfv])
        except PERaise as e:
            chk.fail("expanded-kernel-to-working-order", fkx.qname, f"order {n}: raises {e}", where=fkx.where, instance=str(n))
            continue
        d = dag.sub(dag.diff(dag.fn("log", dag.tonode(kx)), "as1"), ratio(a1, n))
        ok, info = valuation_at_least([d], {"as1": 1, "as0": 1}, n - 1, chk.seed, 2)
        chk.decide(ok, "expanded-kernel-to-working-order", fkx.qname, f"order {n}: d/da1 ln(ker_expanded) differs from gamma_m/(a beta) at order "
                   f"a^{info.get('lowest_power')} (< a^{n - 1})", where=fkx.where, instance=str(n), data={"witness": info}, how="Laurent series over F_p")
        sym, _ = dag.is_zero_fp([dag.sub(dag.substitute(dag.tonode(kx), {"as1": a0}), dag.const(1))], chk.seed, 2)
        chk.decide(sym, "expanded-kernel-to-working-order", fkx.qname, f"order {n}: ker_expanded(a0, a0) != 1", where=fkx.where, instance=f"{n},unit")
    # ---- (3) decoupling ---------------------------------------------------------------------------------------------------------------
    fev = src.func(f"{MM}.evolve")
    W = [Fraction(10), Fraction(100), Fraction(1000)]      # coupling thresholds (renormalisation-scale units)
    ks = [dag.sym("kc2"), dag.sym("kb2"), dag.sym("kt2")]

    class SC(Opaque):
        def __init__(self, order, walls):
            self.order = (order, 0)
            self.atlas = Opaque()
            self.atlas.walls = [0] + list(walls) + [float("inf")]
            self.asked = []

        def a(self, q2, nf=None):
            self.asked.append((q2, nf))
            return (dag.fn("as", dag.tonode(q2), dag.const(nf)), 0)

    n_dec = 0
    finding_sq = finding_sc = None
    for order, xif2, (q_from, nf_from, q_to, nf_to) in itertools.product(
            (1, 2, 3, 4), (Fraction(1), Fraction(2)),
            ((Fraction(50), 4, Fraction(150), 5), (Fraction(150), 5, Fraction(50), 4), (Fraction(5), 3, Fraction(500), 5), (Fraction(5000), 6, Fraction(50), 4),
             # the reference scale ON a matching scale, on the far side of the target: the first segment is empty, the matching is not
             (Fraction(100), 5, Fraction(50), 4), (Fraction(100), 4, Fraction(150), 5))):
        pe = PE(src)
        pe.overrides[f"{MM}.ker_dispatcher"] = lambda p, a, k: dag.fn("K", dag.tonode(a[0]), dag.tonode(a[1]), dag.const(a[4]))
        if q_from not in W:
            pe.ext["numpy.isclose"] = lambda p, a, k: False
        sc = SC(order, W)
        # thresholds_ratios == 1 in scale, symbolic in the logarithm: the mass path then has to switch where the coupling does
        pe.ext["numpy.log"] = lambda p, a, k: dag.fn("log", dag.tonode(a[0]))
        inst = f"order={order},xif2={xif2},({q_from},{nf_from})->({q_to},{nf_to})"
        # walls seen by the mass path: evolve multiplies the coupling walls by the ratios; use unit ratios with distinct log symbols
        class Ratio(Fraction):
            pass
        try:
            out = pe.call(fev.qname, [dag.sym("m2ref"), q_from, sc, [Fraction(1)] * 3, xif2, q_to], {"nf_ref": nf_from, "nf_to": nf_to})
        except PERaise as e:
            chk.fail("decoupling-relation-applied", fev.qname, f"{inst}: {type(e).__name__} {e}", where=fev.where, instance=inst)
            continue
        n_dec += 1
        down = nf_to < nf_from
        nfs = list(range(nf_from, nf_to + (-1 if down else 1), -1 if down else 1))
        # expected with unit ratios: L = log(1) -> only the l = 0 terms survive; scales: coupling walls / xif2
        want_m = dag.const(1)
        want_sq = dag.const(1)
        cur = q_from
        okpath = True
        for i, nf in enumerate(nfs):
            last = i == len(nfs) - 1
            if last:
                tgt = q_to
            else:
                hq_nf = nf if down else nf + 1       # flavour number of the crossed quark
                tgt = W[hq_nf - 4]                    # the code's choice for unit ratios: the coupling wall itself
            Kf = dag.fn("K", dag.const(tgt), dag.const(cur), dag.const(nf)) if tgt != cur else dag.const(1)    # an empty segment does not run
            want_m = dag.mul(want_m, Kf)
            if not last:
                pe2 = PE(src)
                tab = pe2.call(f"{MM}.compute_matching_coeffs_down" if down else f"{MM}.compute_matching_coeffs_up", [nf - 1 if down else nf])
                ah = dag.fn("as", dag.const(tgt * xif2), dag.const(max(nf, nfs[i + 1])))
                zeta = dag.addn([dag.const(1)] + [dag.mul(dag.power(ah, p_), dag.tonode(tab[p_, 0])) for p_ in range(1, order)])
                want_m = dag.mul(want_m, zeta)
                want_sq = dag.mul(want_sq, zeta)
            cur = tgt
        # m2_out = m2_ref * prod K^2 * prod zeta^(1 or 2)
        Ks = dag.div(dag.tonode(out), dag.sym("m2ref"))
        sq_ok, _ = dag.is_zero_fp([dag.sub(Ks, dag.mul(want_m, want_m))], chk.seed, 2)
        lin_ok, info = dag.is_zero_fp([dag.sub(Ks, dag.mul(dag.div(dag.mul(want_m, want_m), dag.mul(want_sq, want_sq)), want_sq))], chk.seed, 2)
        chk.decide(sq_ok or lin_ok, "decoupling-relation-applied", fev.qname,
                   f"{inst}: the evolved squared mass is not m2_ref * prod K^2 * prod zeta^p with zeta = 1 + sum_(p<order) a'^p c[p,0] at unit ratios, a' the "
                   f"coupling of the scheme with more flavours at the matching scale", where=fev.where, instance=inst, data={"witness": info},
                   how="PE with symbolic coupling + PIT")
        if len(nfs) > 1 and order >= 3 and not sq_ok and lin_ok:
            finding_sq = inst
    chk.floor("decoupling cases", n_dec, 24)
    chk.decide(finding_sq is None, "squared-mass-gets-the-squared-decoupling", fev.qname,
               f"evolve multiplies the SQUARED mass by the decoupling factor of the mass once (m^2 -> m^2 zeta instead of m^2 zeta^2), e.g. {finding_sq}: "
               f"across a matching scale the running mass changes by sqrt(zeta), not by the decoupling relation", where=fev.where,
               instance="matching not squared")
    # all log powers and the ratio index: symbolic logs, one crossing
    for order, (q_from, nf_from, q_to, nf_to) in itertools.product((2, 3, 4), ((Fraction(50), 4, Fraction(150), 5), (Fraction(150), 5, Fraction(50), 4))):
        pe = PE(src)
        pe.overrides[f"{MM}.ker_dispatcher"] = lambda p, a, k: dag.const(1)
        pe.ext["numpy.isclose"] = lambda p, a, k: False
        logs = {0: dag.sym("Lc"), 1: dag.sym("Lb"), 2: dag.sym("Lt")}

        class Tagged(Fraction):
            """a unit ratio that remembers which quark it belongs to"""
            idx = 0

        def mk(i):
            t = Tagged(1)
            t.idx = i
            return t

        pe.ext["numpy.log"] = lambda p, a, k: logs[a[0].idx] if isinstance(a[0], Tagged) else dag.fn("log", dag.tonode(a[0]))
        sc = SC(order, W)
        inst = f"order={order},({q_from},{nf_from})->({q_to},{nf_to})"
        try:
            out = pe.call(fev.qname, [dag.sym("m2ref"), q_from, sc, [mk(0), mk(1), mk(2)], Fraction(1), q_to], {"nf_ref": nf_from, "nf_to": nf_to})
        except PERaise as e:
            chk.fail("all-powers-of-the-logarithm", fev.qname, f"{inst}: {type(e).__name__} {e}", where=fev.where, instance=inst)
            continue
        down = nf_to < nf_from
        pe2 = PE(src)
        tab = pe2.call(f"{MM}.compute_matching_coeffs_down" if down else f"{MM}.compute_matching_coeffs_up", [4])
        ah = dag.fn("as", dag.const(W[1]), dag.const(5))
        Lb = logs[1]
        zeta = dag.addn([dag.const(1)] + [dag.mul(dag.mul(dag.power(ah, p_), dag.power(Lb, l)), dag.tonode(tab[p_, l]))
                                          for p_ in range(1, order) for l in range(p_ + 1)])
        r = dag.div(dag.tonode(out), dag.sym("m2ref"))
        ok1, _ = dag.is_zero_fp([dag.sub(r, zeta)], chk.seed, 2)
        ok2, info = dag.is_zero_fp([dag.sub(r, dag.mul(zeta, zeta))], chk.seed, 2)
        chk.decide(ok1 or ok2, "all-powers-of-the-logarithm", fev.qname,
                   f"{inst}: the factor at the bottom matching is not (a power of) 1 + sum_p a'^p sum_(l=0..p) L_b^l c[p,l]: a power of the logarithm "
                   f"is missing, the wrong quark's ratio is used, or the coupling is not the {5}-flavour one at the matching scale",
                   where=fev.where, instance=inst, data={"witness": info}, how="PE with symbolic logs + PIT")
    # where does the mass path switch?  walls handed to the path = coupling walls * ratios  (consistent only if == coupling walls / xif2)
    pe = PE(src)
    made = []
    atlas_cls = src.cls("eko.matchings.Atlas")
    real_new = None

    def atlas_new(p, a, k):
        made.append(a[0])
        raise PERaise("Stop", "captured")

    pe.overrides[atlas_cls.qname] = atlas_new
    sc = SC(3, [dag.sym("Wc"), dag.sym("Wb"), dag.sym("Wt")])
    try:
        pe.call(fev.qname, [dag.sym("m2ref"), Fraction(50), sc, [dag.sym("kc2"), dag.sym("kb2"), dag.sym("kt2")], dag.sym("xif2"), Fraction(150)],
                {"nf_ref": 4, "nf_to": 5})
    except PERaise:
        pass
    chk.need(len(made) == 1, "evolve no longer builds one Atlas for the mass path")
    got = [dag.tonode(v) for v in (made[0].flat() if isinstance(made[0], Arr) else made[0])]
    want = [dag.div(dag.sym(w), dag.sym("xif2")) for w in ("Wc", "Wb", "Wt")]
    okw, info = dag.is_zero_fp([dag.sub(g, w) for g, w in zip(got, want)], chk.seed, 2)
    chk.decide(okw, "mass-path-switches-where-the-coupling-does", fev.qname,
               f"the mass path changes flavour number at {[dag.short(g) for g in got]} while the coupling (evaluated at xif2 * scale) changes at its "
               f"walls {['Wc', 'Wb', 'Wt']}: required walls/xif2. With ratios k^2 != 1 the matching is applied at m^2 k^4 xif2 with L = ln k^2",
               where=fev.where, instance="matching scales multiplied by the ratios again", data={"witness": info}, how="PE")
    # tables: literature constants + RG-derived logs
    pe = PE(src)
    up = pe.call(f"{MM}.compute_matching_coeffs_up", [dag.sym("nf")])
    ctab = pe.call("eko.couplings.compute_matching_coeffs_up", [pe.enum_members(pe.get_global("eko.quantities.heavy_quarks", "QuarkMassScheme").cls)["MSBAR"]
                                                                 if False else "MSBAR", dag.sym("nf")]) if False else None
    sol, (nfs_, zz, (c11, c20, c21, c22)) = rg_logs()
    z3 = sp.zeta(3)
    # coupling decoupling (MSbar scheme, upward) from the tree
    pe2 = PE(src)
    QS = pe2.enum_members(pe2.get_global("eko.quantities.heavy_quarks", "QuarkMassScheme").cls)
    ct = pe2.call("eko.couplings.compute_matching_coeffs_up", ["MSBAR", dag.sym("nf")])
    chk.need(dag.as_const(dag.tonode(ct[2, 0])) == Fraction(-22, 9), "the coupling's MSbar decoupling table was not selected")
    zsub = {"zeta": lambda x: sp.zeta(x)}
    cs = {c11: dag.to_sympy(dag.tonode(ct[1, 1]), {"nf": nfs_}, zsub), c20: dag.to_sympy(dag.tonode(ct[2, 0]), {"nf": nfs_}, zsub),
          c21: dag.to_sympy(dag.tonode(ct[2, 1]), {"nf": nfs_}, zsub), c22: dag.to_sympy(dag.tonode(ct[2, 2]), {"nf": nfs_}, zsub)}
    t = {(n, k): sp.nsimplify(dag.to_sympy(dag.tonode(up[n, k]), {"nf": nfs_}, zsub), rational=True) for n in range(4) for k in range(4)}
    chk.decide(t[2, 0] == sp.Rational(-89, 27) and all(t[n, k] == 0 for n in (0, 1) for k in range(4)), "decoupling-table", f"{MM}.compute_matching_coeffs_up",
               f"z20 = {t[2, 0]} (literature -89/27) or a non-zero entry below a^2", where=src.func(f"{MM}.compute_matching_coeffs_up").where, instance="z20")
    lit30 = sp.Rational(-118248, 1000) - sp.Rational(158257, 100000) * nfs_
    chk.decide(sp.simplify(t[3, 0] - lit30) == 0, "decoupling-table", f"{MM}.compute_matching_coeffs_up", f"z30 = {t[3, 0]} (literature -118.248 - 1.58257 nf)",
               instance="z30")
    subs = dict(cs)
    subs[zz[2, 0]] = t[2, 0]
    subs[zz[3, 0]] = t[3, 0]
    for (n, k), expr in sorted(sol.items()):
        want = sp.expand(expr.subs(subs))
        got = sp.expand(t[n, k])
        diff = sp.expand(want - got)
        if diff.free_symbols - {nfs_} or diff.has(sp.zeta):
            val = [abs(float(diff.subs(nfs_, v).evalf())) / max(1.0, abs(float(want.subs(nfs_, v).evalf()))) for v in (3, 4, 5)]
        else:
            val = [abs(float(diff.subs(nfs_, v))) / max(1.0, abs(float(want.subs(nfs_, v)))) for v in (3, 4, 5)]
        exact = sp.simplify(diff) == 0
        chk.decide(exact or max(val) < 2e-6, "decoupling-logs-follow-from-rg-invariance", f"{MM}.compute_matching_coeffs_up",
                   f"z{n}{k} = {got}; renormalisation-group invariance requires {sp.nsimplify(want)} (relative deviation {max(val):.2e}; decimal "
                   f"literals are accepted to their six printed digits)", where=src.func(f"{MM}.compute_matching_coeffs_up").where,
                   instance=f"z{n}{k}", how="RG derivation (sympy)")
    fdn = src.func(f"{MM}.compute_matching_coeffs_down")
    calls_ = [ast.unparse(c.func) for c in src.calls_in(fdn)]
    chk.decide("compute_matching_coeffs_up" in calls_ and "invert_matching_coeffs" in calls_, "decoupling-table", fdn.qname,
               "the downward table is no longer the series inverse of the upward one", where=fdn.where, instance="down")
    # ---- (4) guards of compute ----------------------------------------------------------------------------------------------------------
    for xv in (Fraction(1), Fraction(4), Fraction(1, 4)):      # the consistency conditions do not depend on the scale ratio
        XIF2_GUARD[0] = xv
        _guards(chk, src)
    XIF2_GUARD[0] = Fraction(1)
    _patches(chk, src)
    _coupling_consistency(chk, src)
    _second_request(chk, src)
    chk.note(decoupling_cases=n_dec, files=["src/eko/msbar_masses.py", "src/eko/couplings.py"])
    chk.explanation = "fsolve lint; kernels by PE + series; decoupling by PE with symbolic coupling; RG-derived logs; guard truth table."


XIF2_GUARD = [Fraction(1)]


def _guards(chk, src):
    fc = src.func(f"{MM}.compute")
    hq_cls = src.cls("eko.quantities.heavy_quarks.HeavyQuarks")
    n = bad = 0
    mu_ref = Fraction(91)
    for nf_ref in (3, 4, 5, 6):
        for q_idx, hq in enumerate("cbt"):
            # the other quarks are given at their own scale (no computation needed)
            for qm_vs_m, qm_vs_ref in itertools.product(("lt", "eq", "gt"), ("lt", "gt")):
                m = {0: Fraction(2), 1: Fraction(5), 2: Fraction(170)}[q_idx]
                if qm_vs_ref == "lt":
                    qm = {"lt": m / 2, "eq": m, "gt": m * 2}[qm_vs_m]
                    if not qm < mu_ref:
                        continue
                else:
                    qm = {"lt": m / 2, "eq": m, "gt": m * 2}[qm_vs_m]
                    if not qm > mu_ref:
                        qm = None
                if qm is None:
                    continue
                pe = PE(src)
                pe.overrides[f"{MM}.solve"] = lambda p, a, k: a[0]
                pe.overrides[f"{MM}.evolve"] = lambda p, a, k: a[0]
                pe.overrides["eko.couplings.Couplings"] = lambda p, a, k: "SC"
                pe.ext["numpy.allclose"] = lambda p, a, k: True

                class Ref(Opaque):
                    def __init__(self, value, scale):
                        self.value, self.scale = value, scale

                class Masses(Opaque):
                    pass

                ms = Masses()
                for j, h in enumerate("cbt"):
                    mj = {0: Fraction(2), 1: Fraction(5), 2: Fraction(170)}[j]
                    setattr(ms, h, Ref(mj, qm if j == q_idx else mj))
                cp = Opaque()
                cp.ref = (mu_ref, nf_ref)
                try:
                    pe.call(fc.qname, [ms, cp, (3, 0), "exact", [Fraction(1)] * 3], {"xif2": XIF2_GUARD[0]})
                    raised = False
                except PERaise as e:
                    raised = "ValueError" in str(e)
                except dag.Undecidable:
                    continue
                # documented conditions
                q2m, m2, mu2 = qm * qm, m * m, mu_ref * mu_ref
                want = False
                if q2m != m2:
                    if q_idx + 4 == nf_ref and q2m > mu2:
                        want = True
                    if q_idx + 4 == nf_ref + 1 and q2m < mu2:
                        want = True
                    if q_idx + 3 >= nf_ref and q2m >= m2:
                        want = True
                    if q_idx + 3 < nf_ref and q2m < m2:
                        want = True
                n += 1
                if raised != want:
                    bad += 1
                    chk.fail("inconsistent-inputs-are-refused", fc.qname, f"nf_ref={nf_ref}, quark {hq}: Qm={qm}, m={m}, Qref={mu_ref}, xif2={XIF2_GUARD[0]}: refused={raised}, "
                             f"required {want} (Qm on the side of Qref required by nf_ref; forward running for heavier, backward for lighter patches)",
                             where=fc.where, instance=f"{nf_ref},{hq},{qm_vs_m},{qm_vs_ref},xif2={XIF2_GUARD[0]}")
    if not bad:
        chk.ok("inconsistent-inputs-are-refused", fc.qname, f"{n} orderings of (Qm, m, Qref) x quark x nf_ref, xif2={XIF2_GUARD[0]}", how="exhaustive PE")
    chk.floor("guard cases", n, 30)
    if XIF2_GUARD[0] != 1:
        return
    # the result is sorted, and a solution that is not in quark order is refused (evaluated: all three masses "given at their own
    # scale", so nothing is solved and the result is the input)
    for label, vals, want_raise in (("in quark order", (2, 5, 170), False), ("bottom below charm", (5, 2, 170), True), ("top below bottom", (2, 170, 5), True)):
        pe = PE(src)

        class Ref(Opaque):
            def __init__(self, value, scale):
                self.value, self.scale = value, scale

        ms = Opaque()
        for h, v in zip("cbt", vals):
            setattr(ms, h, Ref(Fraction(v), Fraction(v)))
        cp = Opaque()
        cp.ref = (Fraction(91), 5)
        try:
            r = pe.call(fc.qname, [ms, cp, (3, 0), "exact", [Fraction(1)] * 3], {})
            got = [x for x in (r.flat() if isinstance(r, Arr) else list(r))]
            ok = (not want_raise) and got == [Fraction(v) ** 2 for v in sorted(vals)]
            msg = f"returns {[str(x) for x in got]}"
        except PERaise as e:
            ok = want_raise and "ValueError" in str(e)
            msg = f"raises {e}"
        chk.decide(ok, "result-is-sorted", fc.qname, f"masses {label} {vals}: {msg}; required: the squared masses in increasing order, and a "
                   f"ValueError when they are not in quark order", where=fc.where, instance=label, how="PE")


def _patches(chk, src):
    """Patch bookkeeping of compute: which flavour patch a reference mass is evolved FROM and TO, and where it is solved.

    evolve / solve / Couplings are recording mocks; the true masses are fixed exact rationals, the reference scales Qm run over
    every interval between the masses and the coupling reference.  The expected calls are written from the property: the mass is
    evolved from the patch its reference scale lies in (3 + number of thresholds below Qm) to the wall of the patch adjoining
    the quark's threshold on the side of the coupling reference, and solved there."""
    fc = src.func(f"{MM}.compute")
    true_m = [Fraction(2), Fraction(5), Fraction(170)]
    val = [Fraction(21, 10), Fraction(51, 10), Fraction(171)]      # reference VALUES (distinct from the fixed points)
    mu_refs = {3: Fraction(3, 2), 4: Fraction(3), 5: Fraction(91), 6: Fraction(300)}
    cands = [
        [Fraction(2), Fraction(1), Fraction(3), Fraction(10), Fraction(100), Fraction(200), Fraction(400)],
        [Fraction(5), Fraction(1), Fraction(3), Fraction(10), Fraction(100), Fraction(200), Fraction(400)],
        [Fraction(170), Fraction(1), Fraction(3), Fraction(10), Fraction(100), Fraction(200), Fraction(400)],
    ]
    EPS = Fraction(1, 1000)
    n = n_ev = bad = 0
    seen_jumps = set()
    for nf_ref in (3, 4, 5, 6):
        mu_ref = mu_refs[nf_ref]
        mu2 = mu_ref * mu_ref
        for qms in itertools.product(*cands):
            # documented consistency conditions: skip the inputs that must be refused (decided in _guards)
            refuse = False
            for j in range(3):
                q2m, m2 = qms[j] ** 2, true_m[j] ** 2
                if q2m == m2:
                    continue
                if (j + 4 == nf_ref and q2m > mu2) or (j + 4 == nf_ref + 1 and q2m < mu2) or (j + 3 >= nf_ref and q2m >= m2) \
                        or (j + 3 < nf_ref and q2m < m2):
                    refuse = True
            if refuse:
                continue
            order = [2, 1, 0] if nf_ref > 4 else [0, 1, 2]
            calls = []
            pe = PE(src)

            def m_evolve(p, a, k, calls=calls):
                args = dict(zip(("m2_ref", "q2m_ref", "strong_coupling", "thresholds_ratios", "xif2", "q2_to", "nf_ref", "nf_to"), a))
                args.update(k)
                calls.append(("evolve", args))
                return args["m2_ref"] + EPS

            def m_solve(p, a, k, calls=calls):
                args = dict(zip(("m2_ref", "q2m_ref", "strong_coupling", "nf_ref", "xif2"), a))
                args.update(k)
                calls.append(("solve", args))
                j = next(i for i in range(3) if args["m2_ref"] in (val[i] ** 2, val[i] ** 2 + EPS))
                return true_m[j] ** 2

            def m_coupl(p, a, k):
                ms = k.get("masses")
                return ("SC", tuple(ms.flat()) if isinstance(ms, Arr) else tuple(ms))

            pe.overrides[f"{MM}.solve"] = m_solve
            pe.overrides[f"{MM}.evolve"] = m_evolve
            pe.overrides["eko.couplings.Couplings"] = m_coupl
            pe.ext["numpy.allclose"] = lambda p, a, k: True

            class Ref(Opaque):
                def __init__(self, value, scale):
                    self.value, self.scale = value, scale

            ms = Opaque()
            for j, h in enumerate("cbt"):
                setattr(ms, h, Ref(val[j] if qms[j] != true_m[j] else true_m[j], qms[j]))
            cp = Opaque()
            cp.ref = (mu_ref, nf_ref)
            inst = f"nf_ref={nf_ref},Qm=({qms[0]},{qms[1]},{qms[2]})"
            try:
                pe.call(fc.qname, [ms, cp, (3, 0), "exact", [Fraction(1)] * 3], {})
            except PERaise as e:
                bad += 1
                if bad <= 10:
                    chk.fail("mass-is-solved-in-the-adjoining-patch", fc.qname, f"{inst}: consistent input refused: {e}", where=fc.where, instance=inst)
                continue
            except dag.Undecidable:
                continue
            n += 1
            # expected calls, in processing order
            want = []
            INF = float("inf")
            known = [Fraction(0)] * (nf_ref - 3) + [INF] * (6 - nf_ref)
            for j in order:
                if qms[j] == true_m[j]:
                    known[j] = true_m[j] ** 2
                    continue
                fwd = j + 3 >= nf_ref
                nf_target = j + 3 if fwd else j + 4
                nf_here = 3 + sum(1 for k_ in range(3) if true_m[k_] < qms[j])
                snap = tuple(known)
                if nf_here != nf_target:
                    wall = true_m[j - 1] ** 2 if fwd else true_m[j + 1] ** 2
                    want.append(("evolve", val[j] ** 2, qms[j] ** 2, wall, nf_here, nf_target, snap))
                    want.append(("solve", val[j] ** 2 + EPS, wall, nf_target, snap))
                    n_ev += 1
                    seen_jumps.add((nf_here, nf_target))
                else:
                    want.append(("solve", val[j] ** 2, qms[j] ** 2, nf_target, snap))
                known[j] = true_m[j] ** 2

            def scm(x):
                return tuple(x[1]) if isinstance(x, tuple) and len(x) == 2 and x[0] == "SC" else None

            got = []
            for kind, a in calls:
                if kind == "evolve":
                    got.append(("evolve", a["m2_ref"], a["q2m_ref"], a["q2_to"], a.get("nf_ref"), a.get("nf_to"), scm(a["strong_coupling"])))
                else:
                    got.append(("solve", a["m2_ref"], a["q2m_ref"], a["nf_ref"], scm(a["strong_coupling"])))
            if got != want:
                bad += 1
                if bad <= 10:
                    d = next((i for i, (g, w) in enumerate(zip(got, want)) if g != w), min(len(got), len(want)))
                    g = got[d] if d < len(got) else None
                    w = want[d] if d < len(want) else None
                    chk.fail("mass-is-solved-in-the-adjoining-patch", fc.qname,
                             f"{inst}: call #{d} is {_fmt(g)}, required {_fmt(w)} (the running mass leaves the patch its reference scale "
                             f"lies in - 3 + number of thresholds below Qm - and is solved at the wall of the patch adjoining its own "
                             f"threshold on the side of the coupling reference, with a coupling that knows the masses found so far)",
                             where=fc.where, instance=inst)
    if not bad:
        chk.ok("mass-is-solved-in-the-adjoining-patch", fc.qname,
               f"{n} consistent (nf_ref, Qmc, Qmb, Qmt) placements, {n_ev} with a pre-evolution across patches {sorted(seen_jumps)}",
               how="exhaustive PE with recording mocks vs reference from the property")
        chk.floor("patch placements", n, 100)
        chk.floor("placements with pre-evolution", n_ev, 40)
        chk.floor("distinct (from, to) patch jumps", len(seen_jumps), 6)


def _fmt(c):
    if c is None:
        return "missing"
    names = {"evolve": ("m2", "Qm2", "to", "nf_from", "nf_to", "coupling masses"), "solve": ("m2", "Q2", "nf", "coupling masses")}[c[0]]
    return c[0] + "(" + ", ".join(f"{k}={'(' + ','.join(map(str, v)) + ')' if isinstance(v, tuple) else v}" for k, v in zip(names, c[1:])) + ")"


def _second_request(chk, src):
    """runcards.masses asked several times in ONE process (a scan over the scale ratio on one card, or the atlas and the couplings of
    one run): every answer comes from a fixed-point computation with the settings of THAT call.  msbar_masses.compute is a recording
    stand-in; the cards share their heavy-quark and coupling sections (the same objects), only xif differs."""
    from ..pe import Opaque, named_arguments

    fm = src.func("eko.io.runcards.masses")
    pe = PE(src)
    rec = []

    def compute(p_, a, k):
        rec.append(named_arguments(k))
        return Arr.from_nested([dag.sym(f"m{len(rec)}_{i}") for i in range(3)])

    pe.overrides[f"{MM}.compute"] = compute
    schemes = pe.enum_members(src.cls("eko.quantities.heavy_quarks.QuarkMassScheme"))
    heavy = Opaque()
    heavy.masses = "MASSES"
    heavy.masses_scheme = schemes["MSBAR"]
    heavy.matching_ratios = Arr.from_nested([Fraction(1), Fraction(1), Fraction(1)])
    evm = pe.enum_members(src.cls("eko.io.types.EvolutionMethod"))["ITERATE_EXACT"]
    bad = None
    n = 0
    for xif in (Fraction(1), Fraction(2), Fraction(1, 2), Fraction(1)):
        th = Opaque()
        th.heavy, th.couplings, th.order, th.xif = heavy, "COUPLINGS", (2, 0), xif
        before = len(rec)
        try:
            out = pe.call(fm.qname, [th, evm])
        except PERaise as e:
            bad = bad or (xif, f"raises {e}")
            continue
        n += 1
        vals = list(out.flat()) if isinstance(out, Arr) else list(out)
        # the answer must be what a computation with THIS xif returns: either computed now, or by an earlier call with the same settings
        src_calls = [i for i, c in enumerate(rec) if dag.as_const(dag.tonode(c.get("xif2"))) == xif ** 2]
        ok = any(all(v is dag.sym(f"m{i + 1}_{j}") for j, v in enumerate(vals)) for i in src_calls) and len(vals) == 3
        if not ok and bad is None:
            bad = (xif, f"returns {[dag.short(dag.tonode(v)) for v in vals]}; computations so far were made with xif2 = "
                        f"{[str(dag.as_const(dag.tonode(c.get('xif2')))) for c in rec]} ({len(rec) - before} new)")
    chk.decide(bad is None, "every-request-is-solved-with-its-own-settings", fm.qname,
               f"runcards.masses asked for xif = 1, 2, 1/2, 1 on cards that differ in xif only: for xif = {bad[0] if bad else ''} it {bad[1] if bad else ''} - "
               f"masses remembered from a request with another scale ratio are not fixed points m(m) = m of this one", where=fm.where,
               instance="xif scan in one process", how="PE of several requests in one evaluator with a recording fixed-point solver")
    chk.floor("mass requests evaluated", n, 4)


def _coupling_consistency(chk, src):
    """"... with the same coupling, order and matching ratios": the coupling compute() builds for solving and pre-evolving is
    evaluated by ker_dispatcher at (mass scale)^2 * s; its flavour thresholds must then sit at m^2 * k * s - the same factor - so
    that it switches flavour number exactly where the mass patches do; order, method and the MSbar scheme flag are handed on."""
    fc = src.func(f"{MM}.compute")
    fk = src.func(f"{MM}.ker_dispatcher")
    # the factor at which the kernel evaluates the coupling
    pe = PE(src)
    asked = []

    class SCm(Opaque):
        method = "exact"
        order = (2, 0)

        def a(self, q2, nf=None):
            asked.append(q2)
            return (dag.fn("as", dag.tonode(q2), dag.const(nf)), 0)

    pe.overrides[f"{MM}.ker_exact"] = lambda p, a, k: 1
    q_from, q_to, x = dag.sym("q2m_ref"), dag.sym("q2_to"), dag.sym("xif2")
    x_compute = Fraction(4)          # compute() compares scales: a concrete scale ratio there
    pe.call(fk.qname, [q_to, q_from, SCm(), x, 4])
    chk.need(len(asked) == 2, "ker_dispatcher no longer evaluates the coupling at its two end points")
    s_eval = []
    for a, q in zip(sorted(asked, key=lambda n: "q2_to" in dag.short(dag.tonode(n))), (q_from, q_to)):
        s_eval.append(dag.div(dag.tonode(a), q))
    same, _ = dag.is_zero_fp([dag.sub(s_eval[0], s_eval[1])], chk.seed, 2)
    chk.decide(same, "coupling-walls-move-with-the-evaluation-scale", fk.qname, f"the two end points are evaluated at different multiples of "
               f"the mass scale ({dag.short(s_eval[0])}, {dag.short(s_eval[1])})", where=fk.where, instance="kernel-factor")
    # the thresholds of the coupling built by compute
    built = []
    pe = PE(src)
    ks = [dag.sym("kc2"), dag.sym("kb2"), dag.sym("kt2")]

    def m_coupl(p, a, k):
        built.append(named_arguments(k))
        return "SC"

    pe.overrides["eko.couplings.Couplings"] = m_coupl
    pe.overrides[f"{MM}.solve"] = lambda p, a, k: Fraction(25)
    pe.overrides[f"{MM}.evolve"] = lambda p, a, k: a[0]
    pe.ext["numpy.allclose"] = lambda p, a, k: True

    class Ref(Opaque):
        def __init__(self, value, scale):
            self.value, self.scale = value, scale

    ms = Opaque()
    ms.c, ms.b, ms.t = Ref(Fraction(2), Fraction(2)), Ref(Fraction(51, 10), Fraction(10)), Ref(Fraction(170), Fraction(170))
    cp = Opaque()
    cp.ref = (Fraction(91), 5)
    pe.call(fc.qname, [ms, cp, (3, 0), "exact", list(ks)], {"xif2": x_compute})
    chk.need(built, "compute builds no coupling for a mass given away from its own scale")
    for i, kw in enumerate(built):
        tr = kw.get("thresholds_ratios")
        tr = tr.flat() if isinstance(tr, Arr) else list(tr) if isinstance(tr, (list, tuple)) else None
        ok = tr is not None and len(tr) == 3
        if ok:
            ok, _ = dag.is_zero_fp([dag.sub(dag.tonode(t), dag.substitute(dag.mul(k_, s_eval[0]), {"xif2": x_compute})) for t, k_ in zip(tr, ks)], chk.seed, 2)
        chk.decide(ok, "coupling-walls-move-with-the-evaluation-scale", fc.qname,
                   f"the coupling used for the masses has threshold ratios {[dag.short(dag.tonode(t)) for t in (tr or [])]} but is evaluated at "
                   f"(mass scale)^2 * {dag.short(s_eval[0])}: required k * {dag.short(s_eval[0])}, otherwise it changes flavour number "
                   f"away from the mass patches whenever that factor is not 1", where=fc.where, instance=f"coupling#{i}")
        meth = kw.get("method")
        sch = kw.get("hqm_scheme")
        chk.decide(kw.get("order") == (3, 0) and meth == "exact" and "MSBAR" in str(getattr(sch, "attrs", {}).get("_name_", sch)).upper(),
                   "coupling-walls-move-with-the-evaluation-scale", fc.qname,
                   f"the coupling is built with order={kw.get('order')}, method={meth}, scheme={sch}; required the caller's order and method "
                   f"and the MSbar scheme", where=fc.where, instance=f"coupling#{i}:settings")
