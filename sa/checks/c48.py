"""C48 - JIT-compiled numerical kernels agree with their interpreted definitions (compile-time typing rules)."""
from __future__ import annotations

import ast
from fractions import Fraction

from .. import dag, kern
from ..arr import Arr
from ..cfg import all_paths_return_value
from ..pe import PE, Top
from ..src import load, stmt_text

LEVEL = "other"
META = {
    "text": "The test-suite runs with NUMBA_DISABLE_JIT=1, so everything that differs between numba's compiled semantics and plain "
            "Python is invisible to it. Decided on all 360+ compiled functions: (1) CALL CLOSURE: every repository function "
            "called from a compiled function is itself compiled (resolved call graph). (2) RETURN TYPING: every compiled "
            "function returns a value on all paths (a path returning None cannot be unified by numba), and its returns have one "
            "tuple arity. (3) UNSUPPORTED CONSTRUCTS: no try/except, generators, f-string formatting with format specs, "
            "isinstance on arguments, **kwargs, set/dict comprehensions or global statements inside compiled functions. (4) "
            "FLOAT POWER: while extracting every solution kernel for nf 3-6, a fractional power or sqrt/log whose base is a real-"
            "typed constant of the configuration must not be negative: Python promotes float**0.5 to complex, numba types it "
            "float64 and yields NaN. (5) FROZEN GLOBALS: module-level names read by compiled functions are compile-time "
            "constants for numba; no function may rebind them. (6) jitclass specs declare every attribute assigned in __init__. (7) "
            "SPECIAL POINTS: numba raises ZeroDivisionError for scalar float division where NumPy arithmetic under the interpreter "
            "continues with inf/nan; every compiled function that singles out a scalar input (`if t == 0.5`) is partially evaluated "
            "AT that input and must not execute a division by an exactly vanishing denominator there.",
    "note": "These are the compile-time conditions for agreement; equality of floating-point values of compiled and interpreted "
            "code is not decided (numba itself is trusted). numba is not imported or run.",
    "technique": "call-graph closure + typing/effect lints on the AST of compiled functions + sign analysis of real-typed powers during partial evaluation + partial evaluation of compiled functions at their special-cased scalar inputs (division by an exact zero)",
    "engine": "sa",
}


def _own_nodes(fn):
    stack = list(fn.body)
    while stack:
        n = stack.pop()
        yield n
        for ch in ast.iter_child_nodes(n):
            if not isinstance(ch, (ast.FunctionDef, ast.AsyncFunctionDef, ast.ClassDef)):
                stack.append(ch)


def run(chk):
    src = load()
    chk.rule_text = "compiled call closure; all-paths-return; no unsupported constructs; no negative real base of fractional powers; frozen globals"
    njit = {q: f for q, f in src.funcs.items() if f.is_njit and f.parent is None}
    chk.floor("compiled functions", len(njit), 340)
    # ---- (1) call closure -----------------------------------------------------------------------------------
    n_edges = 0
    for q, f in njit.items():
        lt = src.field_types(f.cls) if f.cls else None
        for c in src.calls_in(f):
            r = src.resolve_call(f, c, lt)
            if hasattr(r, "is_njit"):
                n_edges += 1
                if not r.is_njit:
                    chk.fail("compiled-call-closure", q, f"compiled function calls `{r.qname}`, which is not compiled: numba cannot type the call "
                             f"(TypingError at first use)", where=f"{f.module.relpath}:{c.lineno}", instance=r.qname)
            elif hasattr(r, "is_jitclass"):
                n_edges += 1
                if not r.is_jitclass:
                    chk.fail("compiled-call-closure", q, f"compiled function instantiates `{r.qname}`, which is not a jitclass",
                             where=f"{f.module.relpath}:{c.lineno}", instance=r.qname)
    chk.ok("compiled-call-closure", "all compiled functions", f"{n_edges} resolved call edges into the repository")
    chk.floor("resolved call edges from compiled functions", n_edges, 1500)
    # ---- (2) return typing ----------------------------------------------------------------------------------------
    n_ret = 0
    for q, f in njit.items():
        ok, why = all_paths_return_value(f.node)
        n_ret += 1
        if not ok:
            chk.fail("compiled-return-typing", q, f"a path ends without returning a value ({why}); numba cannot unify None with the "
                     f"array/number returned elsewhere", where=f.where, instance="implicit None")
        arities = set()
        for n in _own_nodes(f.node):
            if isinstance(n, ast.Return) and n.value is not None:
                arities.add(len(n.value.elts) if isinstance(n.value, ast.Tuple) else -1)
        if len(arities) > 1:
            chk.fail("compiled-return-typing", q, f"returns with different tuple arities {sorted(arities)}", where=f.where, instance="arity")
    chk.ok("compiled-return-typing", "all compiled functions", f"{n_ret} functions")
    # ---- (3) unsupported constructs ------------------------------------------------------------------------------
    for q, f in njit.items():
        if f.name in ("__init__",) and False:
            continue
        for n in _own_nodes(f.node):
            bad = None
            if isinstance(n, ast.Try):
                bad = "try/except"
            elif isinstance(n, (ast.Yield, ast.YieldFrom)) and not (f.cls is not None):
                bad = "generator"
            elif isinstance(n, (ast.SetComp, ast.DictComp)):
                bad = "set/dict comprehension"
            elif isinstance(n, ast.Global):
                bad = "global statement"
            elif isinstance(n, ast.FormattedValue) and n.format_spec is not None:
                bad = "f-string with format spec"
            elif isinstance(n, ast.Call) and isinstance(n.func, ast.Name) and n.func.id in ("isinstance", "getattr", "hasattr", "eval", "open"):
                bad = f"{n.func.id}()"
            elif isinstance(n, ast.Lambda):
                bad = "lambda"
            if bad:
                chk.fail("compiled-unsupported-construct", q, f"`{stmt_text(n)[:70]}`: {bad} is not supported in nopython mode",
                         where=f"{f.module.relpath}:{n.lineno}", instance=bad)
        if f.node.args.kwarg is not None:
            chk.fail("compiled-unsupported-construct", q, "**kwargs is not supported in nopython mode", where=f.where, instance="**kwargs")
    chk.ok("compiled-unsupported-construct", "all compiled functions", f"{len(njit)} functions scanned")
    # ---- (4) real-typed fractional powers of negative constants ----------------------------------------------------------
    sites = {}

    def hook(kind, node, env, args):
        if kind == "pow":
            base, ex, base_ast = args[0], args[1], node.left
        elif kind == "numpy.power":
            base, ex, base_ast = args[0], args[1], node.args[0]
        else:
            return
        if isinstance(base, (Arr, Top)) or isinstance(ex, (Arr, Top)):
            return
        exc = dag.as_const(ex)
        if exc is None or exc.denominator == 1:
            return
        bc = dag.as_const(base)
        if bc is None:
            nd = dag.tonode(base) if not isinstance(base, dag.Node) else base
            if dag.symbols(nd) or (dag.atoms(nd) - {"zeta", "sqrt"}):
                return
            import sympy as sp

            try:
                bc = float(sp.N(dag.to_sympy(nd, fntab={"zeta": lambda k: sp.zeta(k)})))
            except Exception:
                return
            if isinstance(bc, complex) or bc != bc:
                return
        txt = ast.unparse(base_ast)
        key = (env.func_name, stmt_text(node)[:90])
        rec = sites.setdefault(key, {"neg": [], "n": 0, "cplx": "complex(" in txt or "1j" in txt or "sqrt(" in txt and "complex" in txt,
                                     "line": node.lineno, "mod": env.module.relpath})
        rec["n"] += 1
        if bc < 0:
            rec["neg"].append(float(bc))

    pe = PE(src, assume=kern.assume_distinct_couplings, real_is_identity=True)
    pe.site_hook = hook
    M = pe.enum_members(pe.get_global("eko.kernels", "EvoMethods").cls)
    a1, a0 = dag.sym("a1"), dag.sym("a0")
    runs = 0
    for nfc in (3, 4, 5, 6):
        for n in (1, 2, 3, 4):
            for mname in ("ITERATE_EXACT", "ITERATE_EXPANDED", "TRUNCATED", "DECOMPOSE_EXACT"):
                runs += 1
                pe.call(f"{kern.NS}.dispatcher", [(n, 0), M[mname], kern.ns_gamma(n), a1, a0, nfc])
                pe.call(f"{kern.SG}.dispatcher", [(n, 0), M[mname], kern.sg_gamma(n), a1, a0, nfc, 1, (n, 0)])
    for (fname, text), rec in sorted(sites.items()):
        fq = src.funcs.get(fname)
        compiled = fq.is_njit if fq is not None else True
        bad = rec["neg"] and not rec["cplx"] and compiled
        chk.decide(not bad, "compiled-float-power-of-negative", fname,
                   f"`{text}`: the real-typed base is negative ({rec['neg'][:1]}) for some nf in 3..6; plain Python promotes the "
                   f"result to complex, numba types float64**float64 as float64 and returns NaN", where=f"{rec['mod']}:{rec['line']}",
                   instance=text, detail=f"{rec['n']} evaluations, negative: {len(rec['neg'])}, complex-typed: {rec['cplx']}")
    chk.floor("kernel extractions", runs, 64)
    # ---- (5) frozen globals ---------------------------------------------------------------------------------------------
    read = {}
    for q, f in njit.items():
        m = f.module
        params = set(f.params)
        local = {t.id for n in _own_nodes(f.node) if isinstance(n, (ast.Assign, ast.AugAssign, ast.For)) for t in ast.walk(
            n.targets[0] if isinstance(n, ast.Assign) else n.target) if isinstance(t, ast.Name)}
        for n in _own_nodes(f.node):
            if isinstance(n, ast.Name) and isinstance(n.ctx, ast.Load) and n.id in m.consts and n.id not in params and n.id not in local:
                read.setdefault((m.name, n.id), q)
            if isinstance(n, ast.Attribute) and isinstance(n.value, ast.Name) and n.value.id in m.imports:
                tgt = src.canonical(m.imports[n.value.id])
                if tgt in src.modules and n.attr in src.modules[tgt].consts:
                    read.setdefault((tgt, n.attr), q)
    n_glob = 0
    for q, f in src.funcs.items():
        for n in ast.walk(f.node):
            if isinstance(n, ast.Global):
                for name in n.names:
                    n_glob += 1
                    key = (f.module.name, name)
                    if key in read:
                        chk.fail("compiled-globals-are-frozen", q,
                                 f"`global {name}` rebinds {f.module.name}.{name}, which the compiled function {read[key]} reads: numba "
                                 f"freezes globals at compile time, so after this call compiled and interpreted code use different values",
                                 where=f"{f.module.relpath}:{n.lineno}", instance=f"{f.module.name}.{name}")
    chk.ok("compiled-globals-are-frozen", "all functions", f"{len(read)} module constants read by compiled code, {n_glob} global rebinding sites examined")
    chk.floor("module constants read by compiled functions", len(read), 10)
    # ---- (6) jitclass specs ------------------------------------------------------------------------------------------------
    n_jc = 0
    for cq, c in src.classes.items():
        if not c.is_jitclass:
            continue
        n_jc += 1
        spec_names = set()
        for d in c.node.decorator_list:
            for x in ast.walk(d):
                if isinstance(x, ast.Name) and x.id in c.module.consts:
                    v = c.module.consts[x.id]
                    for t in ast.walk(v):
                        if isinstance(t, ast.Tuple) and t.elts and isinstance(t.elts[0], ast.Constant) and isinstance(t.elts[0].value, str):
                            spec_names.add(t.elts[0].value)
        init = c.methods.get("__init__")
        assigned = set()
        if init:
            for n in ast.walk(init.node):
                if isinstance(n, (ast.Assign, ast.AnnAssign, ast.AugAssign)):
                    for t in (n.targets if isinstance(n, ast.Assign) else [n.target]):
                        if isinstance(t, ast.Attribute) and isinstance(t.value, ast.Name) and t.value.id == "self":
                            assigned.add(t.attr)
        missing = assigned - spec_names
        chk.decide(not missing or not spec_names, "jitclass-spec-covers-attributes", cq,
                   f"attributes {sorted(missing)} are assigned in __init__ but not declared in the jitclass spec", where=c.where,
                   detail=f"{len(assigned)} attributes declared")
    chk.floor("jitclasses", n_jc, 2)
    n_special = _special_points(chk, src, njit)
    chk.note(special_point_evaluations=n_special)
    chk.note(compiled_functions=len(njit), call_edges=n_edges, power_sites={f"{k[0]}: {k[1]}": v["n"] for k, v in sites.items()},
             files=["src/eko/", "src/ekore/"])
    chk.explanation = ("Compile-time agreement conditions between numba and plain Python over all compiled functions, plus sign "
                       "analysis of real-typed fractional powers for nf 3-6.")


def _special_points(chk, src, njit):
    """numba uses Python's error model for scalar float division: x / 0.0 raises ZeroDivisionError in compiled code, while the
    interpreter - when a NumPy scalar is involved - continues with inf/nan and a warning.  A compiled function that singles out an
    input with `if <parameter> == <constant>` tells which inputs are special: the function is partially evaluated AT that input
    (all other arguments symbolic); if a division by an exactly vanishing denominator is executed there - typically because the
    special case is patched after the general formula instead of guarding it - the two modes differ."""
    n_f = n_sp = 0
    for q, f in sorted(njit.items()):
        params = f.params
        specials = []
        for n in ast.walk(f.node):
            if isinstance(n, ast.Compare) and len(n.ops) == 1 and isinstance(n.ops[0], ast.Eq):
                for nm, cst in ((n.left, n.comparators[0]), (n.comparators[0], n.left)):
                    if isinstance(nm, ast.Name) and nm.id in params and isinstance(cst, ast.Constant) and isinstance(cst.value, (int, float)) \
                            and not isinstance(cst.value, bool):
                        specials.append((nm.id, Fraction(str(cst.value))))
        if not specials:
            continue
        n_f += 1
        for pname, val in sorted(set(specials)):
            pe = PE(src, assume=lambda text, env: None, real_is_identity=True)
            args = [val if p == pname else dag.sym(p) for p in params]
            inst = f"{pname}={val}"
            n_sp += 1
            try:
                pe.call(q, args)
                ok, msg = True, ""
            except ZeroDivisionError as e:
                ok, msg = False, str(e)
            except Exception:
                continue   # the function needs structured arguments: not decided here
            chk.decide(ok, "compiled-division-at-special-points", q,
                       f"at the input {inst}, which the function itself treats as special, a division by an exactly vanishing denominator is "
                       f"executed ({msg}): compiled code raises ZeroDivisionError there, the interpreter continues (NumPy scalar arithmetic) "
                       f"and the special case is patched afterwards", where=f.where, instance=inst, how="PE at the special input")
    chk.floor("compiled functions with special-cased scalar inputs", n_f, 2)
    return n_sp
