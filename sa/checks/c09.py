"""C09 - singlet solutions reduce to non-singlet ones for commuting (diagonal) anomalous dimensions."""
from __future__ import annotations

from .. import dag, kern
from ..arr import Arr

LEVEL = "proof"
META = {
    "text": "With symbolic diagonal 2x2 anomalous dimensions, the formula returned by the singlet dispatcher for LO and for the "
            "decompose-exact, decompose-expanded, truncated and ordered-truncated methods at orders 2-4 is proved to be a diagonal "
            "matrix whose entries are identical (as formulas in all symbols) to the non-singlet dispatcher's result of the same "
            "method on the corresponding diagonal entries. This is where a wrong argument to an evolution integral, a wrong "
            "integral (exact vs expanded) or aliasing of intermediate arrays shows.",
    "note": "Iterated and perturbative methods agree only within discretisation/truncation accuracy and are not compared here "
            "(their generator and working-order accuracy are C12/C08). PIT in F_p with modular square roots (error < 1e-30).",
    "technique": "partial evaluation of both dispatchers + polynomial identity testing of sibling implementations",
    "engine": "sa",
}


def run(chk):
    src, pe, M = kern.setup(chk)
    chk.trusted += ["random interpretation in F_p"]
    chk.rule_text = "singlet_method(diag(p_k, m_k))[i,i] == ns_method(entries i) and off-diagonals == 0"
    a1, a0, nf = dag.sym("a1"), dag.sym("a0"), dag.sym("nf")
    sd = src.func(f"{kern.SG}.dispatcher")
    nd = src.func(f"{kern.NS}.dispatcher")
    cases = [(1, "ITERATE_EXACT")]
    for n in (2, 3, 4):
        for m in ("DECOMPOSE_EXACT", "DECOMPOSE_EXPANDED", "TRUNCATED", "ORDERED_TRUNCATED"):
            cases.append((n, m))
    n_inst = 0
    for n, mname in cases:
        inst = f"order={n},method={mname}"
        G = kern.sg_gamma(n, diag=True)
        K = pe.call(sd.qname, [(n, 0), M[mname], G, a1, a0, nf, 1, (n, 0)])
        chk.need(isinstance(K, Arr) and K.shape == (2, 2), f"singlet kernel is not 2x2 ({inst})")
        n_inst += 1
        diffs = [K[0, 1], K[1, 0]]
        # The documentation (doc/source/theory/DGLAP.rst, singlet sections) prescribes ONE truncated singlet formula for both
        # 'truncated' and 'ordered-truncated'; its commuting limit is the non-singlet 'truncated' kernel.  The non-singlet
        # 'ordered-truncated' kernel differs from it beyond the working order, which is checked as such below.
        ns_method = "TRUNCATED" if mname == "ORDERED_TRUNCATED" else mname
        for i in (0, 1):
            g = Arr.from_nested([G[k, i, i] for k in range(n)])
            E = pe.call(nd.qname, [(n, 0), M[ns_method], g, a1, a0, nf])
            diffs.append(dag.sub(K[i, i], E))
            if mname == "ORDERED_TRUNCATED":
                from ..series import valuation_at_least

                Eot = pe.call(nd.qname, [(n, 0), M[mname], g, a1, a0, nf])
                d = dag.sub(K[i, i], Eot)  # both are O(1) under the joint scaling
                okv, infov = valuation_at_least([d], {"a1": 1, "a0": 1}, n, chk.seed, 2)
                chk.decide(okv, "singlet-ordered-truncated-vs-ns-ordered-truncated", sd.qname,
                           f"singlet ordered-truncated (diagonal entry {i}) differs from the non-singlet ordered-truncated kernel "
                           f"already at order lam^{infov.get('lowest_power')} < lam^{n}", where=sd.where, instance=f"{inst},entry={i}",
                           data={"witness": infov}, how="Laurent series over F_p")
        ok, info = dag.is_zero_fp(diffs, chk.seed, 3)
        what = ["off-diagonal [0,1] != 0", "off-diagonal [1,0] != 0", "entry [0,0] != non-singlet kernel",
                "entry [1,1] != non-singlet kernel"]
        chk.decide(ok, "singlet-reduces-to-non-singlet", sd.qname,
                   f"singlet {mname} at order {n} with diagonal anomalous dimensions: {what[info.get('index', 0)] if not ok else ''} "
                   f"of the same method", where=sd.where, instance=inst,
                   data={"witness": info, "singlet_00": dag.short(dag.tonode(K[0, 0]), 400)},
                   detail="diag entries == NS kernels", how="PIT F_p")
    # the two dispatchers offer the same method set
    chk.floor("method/order instances", n_inst, 13)
    chk.note(instances=n_inst, files=["src/eko/kernels/singlet.py", "src/eko/kernels/non_singlet.py"])
    chk.explanation = "Sibling cross-check of the singlet and non-singlet dispatchers in the commuting limit, for all symbols."
