"""C49 - the command-line interface produces valid runcards and the library's EKO (argument forms, option constraints, wiring)."""
from __future__ import annotations

import ast
import pathlib

from .. import effects as E
from ..pe import PE, PERaise, Opaque, ClassRef
from ..src import load, stmt_text

LEVEL = "proof"
META = {
    "text": "(1) OPTION CONSTRAINTS vs CONSUMER (contradiction rule): no command creates (mkdir) a path that its own option declares "
            "with exists=True - such a command can only fail on a fresh destination; resolved through the option helper "
            "(cli.library.destination); a parameter the command uses as a directory (mkdir, `/ name`) must be allowed to be one "
            "(not dir_okay=False) and must be creatable when present and when nested (exist_ok, parents). (2) `runcards example` is "
            "evaluated on a model file system for an absent, a present and a nested destination: exactly the normalised (.raw) "
            "theory and operator cards are written into it as plain YAML (totality of the normaliser is C40). "
            "(3) ARGUMENT FORMS: `run` is partially evaluated for 0..4 path arguments with symbolic paths and a recording solver: "
            "one argument -> <dir>/theory.yaml, <dir>/operator.yaml, output <dir>/eko.tar; two -> the given cards, output next "
            "to the operator card; three -> the given cards and output; otherwise a usage error. The solver called is the "
            "library's `eko.solve` (the managed runner), exactly once, with the cards loaded from those two files by the same "
            "loaders the library uses (TheoryCard/OperatorCard.from_dict of the safely loaded YAML), and nothing else of the "
            "command writes or computes."
            " Two invocations of `run` in one evaluator with the card contents changed in between solve the cards of the second moment (memoising decorators modelled).",
    "note": "That the files written load back to equal cards is C40's normaliser/reader agreement; equality of operators follows "
            "from calling the same solver on the same cards.",
    "technique": "option/consumer contradiction rules on click declarations + partial evaluation of the commands (argument forms with symbolic paths; example command on a model file system)",
    "engine": "sa",
}

CLI = "ekobox.cli"


class FP(type(pathlib.PurePosixPath()), Opaque):
    GENERATION = [0]          # bumped when "the files change on disk" between two invocations

    def read_text(self, encoding=None):
        return ("TEXT", str(self)) if not FP.GENERATION[0] else ("TEXT", str(self), FP.GENERATION[0])


def _click_path_kwargs(call):
    """keywords of a click.Path(...) found inside a click.option(...) call"""
    for n in ast.walk(call):
        if isinstance(n, ast.Call) and ast.unparse(n.func) in ("click.Path", "Path") and any(k.arg == "path_type" or k.arg == "exists" for k in n.keywords):
            return {k.arg: ast.unparse(k.value) for k in n.keywords}
    return None


def run(chk):
    src = load()
    chk.rule_text = "no exists=True on a path the command creates; run(paths) table; solver wiring"
    # ---- (1) contradiction rule ----------------------------------------------------------------------------------------------
    # option helpers: functions returning click.option(...) -> (param name, Path kwargs)
    helpers = {}
    for q, f in src.funcs.items():
        if not q.startswith(CLI):
            continue
        for v in E.return_exprs(f.node):
            if isinstance(v, ast.Call) and ast.unparse(v.func) == "click.option":
                names = [a.value for a in v.args if isinstance(a, ast.Constant) and str(a.value).startswith("--")]
                helpers[q] = (names[0][2:].replace("-", "_") if names else None, _click_path_kwargs(v))
    n_cmd = 0
    n_dir = [0]
    for q, f in src.funcs.items():
        if not q.startswith(CLI) or f.parent is not None:
            continue
        opts = {}
        for d in f.node.decorator_list:
            if isinstance(d, ast.Call) and ast.unparse(d.func) in ("click.option", "click.argument"):
                names = [a.value for a in d.args if isinstance(a, ast.Constant)]
                nm = next((x[2:].replace("-", "_") for x in names if str(x).startswith("--")), names[0] if names else None)
                opts[nm] = _click_path_kwargs(d)
            elif isinstance(d, ast.Name) and d.id in f.module.consts:
                v = f.module.consts[d.id]
                if isinstance(v, ast.Call):
                    r = src.resolve_name(f.module, src.dotted(v.func) or "")
                    if r in helpers:
                        opts[helpers[r][0]] = helpers[r][1]
        if not opts and not any("command" in ast.unparse(d) for d in f.node.decorator_list):
            continue
        n_cmd += 1
        for pname, kw in opts.items():
            if not kw or kw.get("exists") != "True":
                continue
            creates = [n for n in E.own_nodes(f.node) if isinstance(n, ast.Call) and isinstance(n.func, ast.Attribute)
                       and n.func.attr in ("mkdir", "makedirs", "touch") and ast.unparse(n.func.value) == pname]
            chk.decide(not creates, "option-constraint-agrees-with-consumer", q, f"option `{pname}` is declared exists=True but the command "
                       f"creates it (`{ast.unparse(creates[0]) if creates else ''}`): on a fresh destination, and for the default one, click refuses "
                       f"before the command runs", where=f.where, instance=pname)
        # a parameter the command uses as a DIRECTORY (creates it, or joins file names onto it) must be allowed to be one, present or
        # not: click validates the value - the default too - before the command body runs
        for pname, kw in opts.items():
            if kw is None:
                continue
            mk = [n for n in E.own_nodes(f.node) if isinstance(n, ast.Call) and isinstance(n.func, ast.Attribute) and n.func.attr == "mkdir"
                  and ast.unparse(n.func.value) == pname]
            joins = [n for n in E.own_nodes(f.node) if isinstance(n, ast.BinOp) and isinstance(n.op, ast.Div) and ast.unparse(n.left) == pname]
            if not mk and not joins:
                continue
            n_dir[0] += 1
            chk.decide(kw.get("dir_okay") != "False", "option-constraint-agrees-with-consumer", q, f"option `{pname}` is declared dir_okay=False "
                       f"but the command uses it as a directory: an existing destination (the default one after a first call) is refused by "
                       f"click before the command runs", where=f.where, instance=pname + ":dir")
            for n in mk:
                kws = {k.arg: ast.unparse(k.value) for k in n.keywords}
                chk.decide(kws.get("exist_ok") == "True" and kws.get("parents") == "True", "option-constraint-agrees-with-consumer", q,
                           f"`{ast.unparse(n)}`: the destination must be creatable when it is present already (exist_ok=True) and when it is "
                           f"nested (parents=True)", where=f"{f.module.relpath}:{n.lineno}", instance=pname + ":mkdir")
    chk.floor("click commands", n_cmd, 3)
    chk.floor("directory-valued options", n_dir[0], 1)
    fex = src.func(f"{CLI}.runcards.sub_example")
    chk.need(any(h[0] == "destination" for h in helpers.values()), "the destination option helper vanished")
    # ---- (2) example writes normalised cards into the destination ---------------------------------------------------------------
    # evaluated on the model file system with the example cards replaced by marked objects: the command must create the destination
    # (absent, present, nested) and write the NORMALISED form (.raw) of the example theory and operator card into it, as plain YAML
    from .. import fsmodel

    for label, dest, pre in (("absent", "/cwd/runcards", []), ("present", "/cwd/runcards", ["/cwd/runcards"]), ("nested", "/cwd/a/b", [])):
        fs_ = fsmodel.FS()
        pe_x = PE(src)
        fsmodel.install(pe_x, fs_)
        fs_.path("/cwd").mkdir()
        for d in pre:
            fs_.path(d).mkdir(parents=True)

        class Card(Opaque):
            def __init__(self, kind):
                self.kind = kind
                self.raw = {"card": kind, "normalised": True}

        pe_x.overrides["ekobox.cards.example.theory"] = lambda p_, a, k: Card("theory")
        pe_x.overrides["ekobox.cards.example.operator"] = lambda p_, a, k: Card("operator")
        try:
            pe_x.call(fex.qname, [fs_.path(dest)])
            written = {p_: c for p_, c in fs_.files.items() if p_.startswith(dest + "/")}
            kinds = sorted(c[1].get("card") for c in written.values() if isinstance(c, tuple) and c[0] == "yaml" and isinstance(c[1], dict) and c[1].get("normalised"))
            ok, msg = kinds == ["operator", "theory"] and len(written) == 2, f"files {sorted(written)} holding {kinds}"
        except PERaise as e:
            ok, msg = False, f"raises {e}"
        chk.decide(ok, "example-writes-normalised-cards", fex.qname, f"destination {label}: {msg}; required: the destination created if needed and "
                   f"exactly the normalised theory and operator cards written into it as plain YAML", where=fex.where, instance=label,
                   how="PE on a model file system")
    # ---- (3) argument forms of `run` ------------------------------------------------------------------------------------------------
    frun = src.func(f"{CLI}.run.subcommand")
    pe = PE(src)
    cap = []
    pe.ext["yaml.safe_load"] = lambda p, a, k: {"order": 1, "configs": 1, "__from__": a[0]}
    pe.overrides["eko.io.dictlike.DictLike.from_dict"] = lambda p, a, k: (a[0].cls.node.name if isinstance(a[0], ClassRef) else str(a[0]), a[-1]["__from__"])
    solver_q = src.resolve_name(src.module(f"{CLI}.run"), "eko.solve")
    chk.decide(solver_q == "eko.runner.managed.solve", "cli-calls-the-library-solver", frun.qname, f"`eko.solve` resolves to {solver_q}, not the "
               f"managed runner", where=frun.where, instance="resolution")
    pe.overrides["eko.runner.managed.solve"] = lambda p, a, k: cap.append((a, k))
    names = {k: pe.get_global(f"{CLI}.library", k) for k in ("THEORY", "OPERATOR", "OUTPUT")}
    chk.decide(names == {"THEORY": "theory.yaml", "OPERATOR": "operator.yaml", "OUTPUT": "eko.tar"}, "run-argument-forms", f"{CLI}.library",
               f"default names {names}", instance="defaults")
    # relative and absolute paths behave differently under `/` (an absolute right operand discards the left one): both are evaluated
    for style, root in (("relative", ""), ("absolute", "/")):
        for n in range(0, 5):
            del cap[:]
            paths = [FP(f"{root}d{i}/f{i}") for i in range(n)]
            try:
                pe.call(frun.qname, [paths])
                raised = None
            except PERaise as e:
                raised = str(e)
            inst = f"n={n},{style}"
            if n in (0, 4):
                chk.decide(raised is not None and "UsageError" in raised and not cap, "run-argument-forms", frun.qname,
                           f"{n} arguments: expected a usage error, got {raised or cap}", where=frun.where, instance=inst, how="PE")
                continue
            if n == 1:
                want = (f"{root}d0/f0/theory.yaml", f"{root}d0/f0/operator.yaml", f"{root}d0/f0/eko.tar")
            elif n == 2:
                want = (f"{root}d0/f0", f"{root}d1/f1", f"{root}d1/eko.tar")
            else:
                want = (f"{root}d0/f0", f"{root}d1/f1", f"{root}d2/f2")
            got = None
            if raised is None and len(cap) == 1:
                a, k = cap[0]
                a = list(a)
                tc = a[0] if a else k.get("theory")
                oc = a[1] if len(a) > 1 else k.get("operator")
                out = k.get("path", a[2] if len(a) > 2 else None)
                got = (tc, oc, str(out))
            wanted = (("TheoryCard", ("TEXT", want[0])), ("OperatorCard", ("TEXT", want[1])), want[2])
            chk.decide(got == wanted, "run-argument-forms", frun.qname,
                       f"{n} {style} argument(s): the solver is called with {got} (calls: {len(cap)}, raised: {raised}); required: theory card "
                       f"from {want[0]}, operator card from {want[1]}, output {want[2]} (an explicit output path is used as given)", where=frun.where,
                       instance=inst, how="PE with symbolic paths")
    # a second invocation in the same process (a script, a notebook, a test runner) with the same path strings after the cards changed
    # on disk - edited, regenerated, or the same relative names seen from another working directory - solves the cards of THAT moment
    for n in (1, 2, 3):
        paths = [FP(f"d{i}/f{i}") for i in range(n)]
        seen = []
        try:
            for gen in (1, 2):
                FP.GENERATION[0] = gen
                del cap[:]
                pe.call(frun.qname, [paths])
                a, k = cap[0] if cap else ((), {})
                a = list(a)
                seen.append((a[0] if a else k.get("theory"), a[1] if len(a) > 1 else k.get("operator")))
            stale = [c for c in seen[1] if not (isinstance(c, tuple) and isinstance(c[1], tuple) and c[1][-1] == 2)]
            ok, msg = not stale, f"the second invocation solves {seen[1]}"
        except (PERaise, IndexError) as e:
            ok, msg = False, f"raises {e}"
        finally:
            FP.GENERATION[0] = 0
        chk.decide(ok, "every-invocation-reads-the-cards-on-disk", frun.qname,
                   f"{n} argument(s), two invocations in one process with the cards changed in between: {msg}; required: the cards as they are on "
                   f"disk at the second invocation (something read at the first one is remembered)", where=frun.where, instance=f"n={n}",
                   how="PE of two invocations in one evaluator, memoising decorators modelled")
    # nothing else of the command writes
    writes = [ast.unparse(c.func) for c in src.calls_in(frun) if isinstance(c.func, ast.Attribute) and c.func.attr in
              ("write_text", "write_bytes", "mkdir", "unlink", "dump", "safe_dump")]
    chk.decide(not writes, "cli-calls-the-library-solver", frun.qname, f"the run command itself writes: {writes}", where=frun.where, instance="writes")
    chk.note(commands=n_cmd, files=["src/ekobox/cli/run.py", "src/ekobox/cli/runcards.py", "src/ekobox/cli/library.py", "src/ekobox/cards.py"])
    chk.explanation = "Contradiction rule on option constraints; finite table of run's argument forms by PE; wiring to the library solver."
