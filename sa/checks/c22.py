"""C22 - backward matching and decoupling inversions are true inverses (proof, formula level)."""
from __future__ import annotations

from .. import alg, dag, kern
from ..arr import Arr
from ..pe import PE
from ..series import valuation_at_least
from ..src import load

LEVEL = "proof"
META = {
    "text": "build_ome is extracted for every matching order 0-3 with explicit symbolic non-commuting matrices (2x2 and 3x3): the "
            "expanded backward operator times the forward operator is proved to be 1 + O(a_s^(n+1)) in both multiplication orders, "
            "and the exact backward operator is proved to be the exact matrix inverse of the forward sum. invert_matching_coeffs "
            "is proved, with fully symbolic upward coefficients c_nk and log L, to satisfy f(g(a)) = a + O(a^5) and g(f(a)) = a + "
            "O(a^5) for the coupling decoupling series; the POLE/MSBAR coupling tables and the MSbar mass table are pushed "
            "through compute_matching_coeffs_down and composed likewise (mass: multiplicative inverse through a^3)."
            " The mass decoupling as APPLIED by msbar_masses.evolve upwards and downwards across one threshold (recording coupling, one symbol per flavour number) composes to the identity through the implemented order."
            " Along paths with two thresholds (and for one coupling object asked in both directions) every wall uses the table of its own flavour number (shared with C16).",
    "note": "Formula level, all matrices/coefficients symbolic; series coefficients exact in F_p at random points (error < 1e-30).",
    "technique": "partial evaluation to formulas + truncated series over F_p (valuation test) + polynomial identity testing",
    "engine": "sa",
}

QK = "eko.evolution_operator.quad_ker"


def _series_compose(coefs_outer, coefs_inner, L, N=4):
    """a -> inner(a) = a (1 + sum_n a^n sum_k ci[n,k] L^k);  return coefficients of outer(inner(a)) in a through a^N"""
    def poly(c):
        p = alg.Poly2(N, {(1, 0): dag.ONE})
        for n in range(1, 4):
            tot = dag.addn([dag.mul(c[n, k], dag.power(L, k)) for k in range(0, n + 1)])
            if n + 1 <= N:
                p.t[(n + 1, 0)] = tot
        return p

    inner = poly(coefs_inner)
    out = alg.Poly2(N).add(inner)
    for n in range(1, 4):
        tot = dag.addn([dag.mul(coefs_outer[n, k], dag.power(L, k)) for k in range(0, n + 1)])
        out = out.add(inner.power(n + 1).scale(tot))
    return [out.t.get((i, 0), dag.ZERO) for i in range(0, N + 1)]


def run(chk):
    src = load()
    pe = PE(src)
    chk.trusted += ["sa/series.py", "random interpretation in F_p"]
    chk.rule_text = "backward o forward = 1 + O(a^(n+1)); exact backward = matrix inverse; down o up = id + O(a^5)"
    a_s = dag.sym("a_s")
    MM = pe.enum_members(pe.get_global(QK, "MatchingMethods").cls)
    chk.need(MM and {"FORWARD", "BACKWARD_EXACT", "BACKWARD_EXPANDED"} <= set(MM), "MatchingMethods enumeration changed")
    f = src.func(f"{QK}.build_ome")
    n_ob = 0
    for dim in (2, 3):
        for n in range(0, 4):
            A = Arr.from_nested([[[dag.sym(f"A{k}_{i}{j}") for j in range(dim)] for i in range(dim)] for k in range(3)])
            fwd = pe.call(f.qname, [A, (n, 0), a_s, MM["FORWARD"]])
            bex = pe.call(f.qname, [A, (n, 0), a_s, MM["BACKWARD_EXPANDED"]])
            bxa = pe.call(f.qname, [A, (n, 0), a_s, MM["BACKWARD_EXACT"]])
            inst = f"dim={dim},matching_order={n}"
            # forward is the plain sum
            want = kern.eye(dim)
            for k in range(n):
                want = alg.vadd(want, alg.vmul(dag.power(a_s, k + 1), A[k]))
            ok, info = dag.is_zero_fp(kern.mat_sub(fwd, want).flat(), chk.seed, 2)
            n_ob += 1
            chk.decide(ok, "forward-matching-is-the-series", f.qname, f"forward operator is not 1 + sum a^k A_k ({inst})",
                       where=f.where, instance=inst, data={"witness": info}, how="PIT F_p")
            for side, prod in (("backward*forward", kern.mat_mul(bex, fwd)), ("forward*backward", kern.mat_mul(fwd, bex))):
                ok, info = valuation_at_least(kern.mat_sub(prod, kern.eye(dim)).flat(), {"a_s": 1}, n + 1, chk.seed, 2)
                n_ob += 1
                chk.decide(ok, "expanded-backward-is-inverse-to-matching-order", f.qname,
                           f"{side} - 1 has a term of order a_s^{info.get('lowest_power')} (entry {info.get('index')}), "
                           f"must start at a_s^{n + 1} ({inst})", where=f.where, instance=f"{inst},{side}",
                           data={"witness": info}, detail=f"= 1 + O(a_s^{n + 1})", how="series over F_p")
            ok, info = dag.is_zero_fp(kern.mat_sub(kern.mat_mul(bxa, fwd), kern.eye(dim)).flat(), chk.seed, 2)
            n_ob += 1
            chk.decide(ok, "exact-backward-is-matrix-inverse", f.qname, f"exact backward operator times forward is not the identity ({inst})",
                       where=f.where, instance=inst, data={"witness": info}, how="PIT F_p")

    # ---- invert_matching_coeffs, symbolic coefficients ------------------------------------------
    L = dag.sym("L")
    fi = src.func("eko.couplings.invert_matching_coeffs")
    C = Arr.full((4, 4), 0)
    for n in range(1, 4):
        for k in range(0, n + 1):
            if (n, k) != (1, 0):
                C[n, k] = dag.sym(f"c{n}{k}")
    D = pe.call(fi.qname, [C])
    for name, co in (("f(g(a))", _series_compose(D, C, L)), ("g(f(a))", _series_compose(C, D, L))):
        residual = [co[0], dag.sub(co[1], 1), co[2], co[3], co[4]]
        ok, info = dag.is_zero_fp(residual, chk.seed, 3)
        n_ob += 1
        chk.decide(ok, "coupling-decoupling-inverse", fi.qname,
                   f"{name} != a + O(a^5): coefficient of a^{info.get('index')} does not vanish for generic upward coefficients",
                   where=fi.where, instance=name, data={"witness": info}, how="series composition + PIT F_p")
    # ---- concrete tables through compute_matching_coeffs_down -------------------------------------
    nf = dag.sym("nf")
    for scheme in ("POLE", "MSBAR"):
        fu = src.func("eko.couplings.compute_matching_coeffs_up")
        fd = src.func("eko.couplings.compute_matching_coeffs_down")
        up = pe.call(fu.qname, [scheme, nf])
        down = pe.call(fd.qname, [scheme, nf])
        co = _series_compose(down, up, L)
        ok, info = dag.is_zero_fp([co[0], dag.sub(co[1], 1), co[2], co[3], co[4]], chk.seed, 3)
        n_ob += 1
        chk.decide(ok, "coupling-decoupling-inverse", fd.qname,
                   f"{scheme}: downward table composed with the upward table is not a + O(a^5) (coefficient of a^{info.get('index')})",
                   where=fd.where, instance=scheme, data={"witness": info}, how="series composition + PIT F_p")
    fu = src.func("eko.msbar_masses.compute_matching_coeffs_up")
    fd = src.func("eko.msbar_masses.compute_matching_coeffs_down")
    up = pe.call(fu.qname, [nf])
    down = pe.call(fd.qname, [nf])
    a = dag.sym("a")

    def factor(c):
        return dag.addn([dag.ONE] + [dag.mul(dag.mul(c[n, k], dag.power(L, k)), dag.power(a, n)) for n in range(1, 4)
                                     for k in range(0, n + 1)])

    ok, info = valuation_at_least([dag.sub(dag.mul(factor(up), factor(down)), 1)], {"a": 1}, 4, chk.seed, 3)
    n_ob += 1
    chk.decide(ok, "mass-decoupling-inverse", fd.qname,
               f"MSbar mass decoupling: up*down - 1 starts at a^{info.get('lowest_power')} instead of a^4",
               where=fd.where, data={"witness": info}, how="series over F_p")
    _applied_pair(chk, src)
    _applied_mass_pair(chk, src)
    chk.floor("obligations", n_ob, 32 + 2 + 2 + 1)
    # along a path with two thresholds (and for one coupling object asked in both directions) every wall is matched with the table of
    # ITS flavour number - with the coefficients of another wall the downward step is not the inverse of the upward one at N3LO
    from .c16 import tables_per_wall

    tables_per_wall(chk, src, rule="downward-table-is-the-inverse-at-every-wall")
    chk.note(files=["src/eko/evolution_operator/quad_ker.py", "src/eko/couplings.py", "src/eko/msbar_masses.py"], obligations=n_ob)
    chk.explanation = "Inverse relations decided as identities / valuations for symbolic non-commuting matrices and coefficients."


def _applied_pair(chk, src):
    """The relation APPLIED when the coupling crosses a threshold downwards must be the inverse of the one applied when it crosses the
    same threshold upwards: `Couplings.a` is partially evaluated across every threshold in both directions with recording wrappers
    around the coefficient functions - both directions must ask for the coefficients of the same number of light flavours (the
    lower patch's), upwards from the upward table and downwards from its inverse; the third-order constants depend on nf."""
    from ..pe import Closure, Obj, decide_on_values

    CP = "eko.couplings"
    cls = src.cls(f"{CP}.Couplings")
    fa = cls.methods["a"]
    seg_cls = src.cls("eko.matchings.Segment")
    n = 0
    for scheme in ("POLE", "MSBAR"):
        for nl in (3, 4, 5):
            asked = {}
            for direction in ("up", "down"):
                pe = PE(src)
                calls = []
                for nm in ("compute_matching_coeffs_up", "compute_matching_coeffs_down"):
                    f = src.func(f"{CP}.{nm}")

                    def wrap(p_, a, k, nm=nm, f=f):
                        calls.append((nm, a[0], a[1]))
                        return p_.call_closure(Closure(f, f.node, None, f.module, f.qname), list(a), dict(k))

                    pe.overrides[f"{CP}.{nm}"] = wrap
                o = Obj(cls)
                o.attrs.update(a_ref=Arr.from_nested([dag.sym("a_ref"), dag.sym("aem_ref")]), order=(4, 0), hqm_scheme=scheme,
                               thresholds_ratios=[dag.sym("kc"), dag.sym("kb"), dag.sym("kt")], atlas=Obj(src.cls("eko.matchings.Atlas")), cache={},
                               method="expanded", alphaem_running=False, decoupled_running=False)
                nf_a, nf_b = (nl, nl + 1) if direction == "up" else (nl + 1, nl)
                s1 = pe.instantiate(seg_cls.qname, [dag.sym("mu0"), dag.sym("wall"), nf_a])
                s2 = pe.instantiate(seg_cls.qname, [dag.sym("wall"), dag.sym("mu1"), nf_b])
                pe.overrides[f"{CP}.Couplings.compute"] = lambda p_, a, k: Arr.from_nested([dag.sym("A"), dag.sym("AEM")])
                pe.overrides["eko.matchings.Atlas.path"] = lambda p_, a, k, s1=s1, s2=s2: [s1, s2]
                pe.overrides["eko.matchings.lepton_number"] = lambda p_, a, k: 3
                pe.assume = lambda text, env, pe=pe: decide_on_values(pe, text, env) if "isclose" in text else None
                try:
                    pe.apply(pe.getattr(o, "a"), [dag.sym("mu1"), nf_b], {})
                except Exception as e:
                    chk.fail("applied-decoupling-pair-is-inverse", fa.qname, f"{scheme}, threshold {nl}|{nl + 1}, {direction}: {type(e).__name__} {e}",
                             where=fa.where, instance=f"{scheme},{nl},{direction}")
                    continue
                asked[direction] = [(nm, str(sch), nf) for nm, sch, nf in calls if "matching_coeffs" in nm]
            n += 1
            up = [c for c in asked.get("up", []) if c[0].endswith("_up")]
            dn = [c for c in asked.get("down", []) if c[0].endswith("_down")]
            ok = len(up) == 1 and len(dn) == 1 and up[0][2] == nl and dn[0][2] == nl and not [c for c in asked.get("up", []) if c[0].endswith("_down")]
            chk.decide(ok, "applied-decoupling-pair-is-inverse", fa.qname,
                       f"{scheme}, threshold between {nl} and {nl + 1} flavours: crossing upwards asks for {asked.get('up')}, crossing downwards for "
                       f"{asked.get('down')}; required: the upward table and its inverse for the same number of light flavours {nl} (the a_s^3 "
                       f"constants depend on it, so otherwise down(up(a)) != a at the order implemented)", where=fa.where, instance=f"{scheme},{nl}",
                       how="PE of Couplings.a with recording coefficient functions")
    chk.floor("thresholds x schemes", n, 6)


def _applied_mass_pair(chk, src):
    """The mass decoupling as APPLIED by msbar_masses.evolve: crossing a threshold upwards and crossing it downwards must be series in
    ONE coupling (the one with more flavours at the matching scale) - only then do the two tables, which are each other's series
    inverse, compose to the identity through the implemented order.  evolve is evaluated with a recording coupling object that
    answers with one symbol per flavour number, the running kernel replaced by 1, matching ratio k != 1 kept symbolic in the log."""
    from fractions import Fraction

    from ..pe import PE, Opaque, PERaise

    MM = "eko.msbar_masses"
    fev = src.func(f"{MM}.evolve")

    class SC(Opaque):
        def __init__(self, order):
            self.order = (order, 0)
            self.atlas = Opaque()
            self.atlas.walls = [0, Fraction(10), Fraction(100), Fraction(1000), float("inf")]

        def a(self, q2, nf=None):
            return (dag.sym(f"as_nf{nf}"), 0)

    for order in (3, 4):
        outs = {}
        for direction, (q_from, nf_from, q_to, nf_to) in (("up", (Fraction(50), 4, Fraction(150), 5)), ("down", (Fraction(150), 5, Fraction(50), 4))):
            pe = PE(src)
            pe.overrides[f"{MM}.ker_dispatcher"] = lambda p, a, k: 1
            pe.ext["numpy.isclose"] = lambda p, a, k: False
            pe.ext["numpy.log"] = lambda p, a, k: dag.sym("Lk")          # one symbol for the logarithm of the matching ratio
            try:
                outs[direction] = pe.call(fev.qname, [dag.sym("m2ref"), q_from, SC(order), [Fraction(1)] * 3, Fraction(1), q_to],
                                          {"nf_ref": nf_from, "nf_to": nf_to})
            except PERaise as e:
                outs[direction] = None
                chk.fail("applied-mass-decoupling-pair-is-inverse", fev.qname, f"order {order}, {direction}: evolve raises {e}", where=fev.where,
                         instance=f"{order},{direction}")
        if None in outs.values():
            continue
        prod = dag.mul(dag.div(dag.tonode(outs["up"]), dag.sym("m2ref")), dag.div(dag.tonode(outs["down"]), dag.sym("m2ref")))
        ok, info = valuation_at_least([dag.sub(prod, 1)], {"as_nf4": 1, "as_nf5": 1}, order, chk.seed, 3)
        used = sorted(dag.symbols(dag.tonode(outs["up"])) & {"as_nf4", "as_nf5"}), sorted(dag.symbols(dag.tonode(outs["down"])) & {"as_nf4", "as_nf5"})
        chk.decide(ok, "applied-mass-decoupling-pair-is-inverse", fev.qname,
                   f"order {order}: crossing the bottom threshold upwards expands in {used[0]}, downwards in {used[1]}; the product of the two applied "
                   f"factors differs from 1 at order a^{info.get('lowest_power')} (required: not below a^{order}) - the upward and the downward mass "
                   f"decoupling must be series in the same coupling to undo each other", where=fev.where, instance=str(order),
                   data={"witness": info}, how="PE of evolve with a recording coupling + Laurent series over F_p")
