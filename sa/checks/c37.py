"""C37 - the EKO operator store behaves like a persistent map under any history (abstract fs invariant + PE of lookup)."""
from __future__ import annotations

import ast
import itertools
from fractions import Fraction

from ..arr import Arr
from ..pe import PE, Obj, PERaise
from ..src import load, stmt_text
from .c38 import _calls, _callee, _perm_aliases, _write_sites

LEVEL = "other"
META = {
    "text": "(1) Abstract file-system invariant: per header stem at most one operator file (.npy.lz4 or .npz.lz4) exists. "
            "Inventory.__setitem__'s file effects (the extension written and the extensions removed, as functions of `operator.error "
            "is None`) are extracted and the invariant is shown to be preserved from every abstract state - i.e. an overwrite that "
            "switches between the with-error and the without-error format must remove the sibling file, otherwise a later read "
            "finds two files and fails. (2) the header is written on every set, before any early return. (3) __delitem__/empty/"
            "unload have no file-system effect and never add a key (unloading an absent point must not create a phantom member). "
            "(4) EVERY HISTORY of at most 4 (thorough: 5) operations - store with errors, store without, unload, read, unload "
            "everything, items(), re-open the directory with a fresh object - over two evolution points that share their scale is "
            "evaluated on the model file system of sa/fsmodel.py against a dictionary: after every step the store lists exactly the "
            "dictionary's keys (iteration, membership), reads return the value stored last element by element or raise for an absent "
            "point, items() yields everything and leaves nothing loaded, re-opening loses nothing. (5) EKO.approx is partially evaluated on "
            "concrete stores covering every ordering (same/different nf at equal scale, scales inside tolerance, 1.5 tolerances away and far, for a relative and for an absolute tolerance ON THE mu^2 KEYS): it "
            "returns the unique point within tolerance with the query's nf, None, or raises when ambiguous."
            " Histories include the operation 'change a looked-up operator in place and assign the same object again'. Beyond the exhaustive bound a directed family of 64 six-step histories on one point is evaluated: store (either format), drop from memory (unload / unload all / items / re-open), read, store again (either format), drop, read.",
    "note": "The equivalence with a dictionary model is decided for every history up to the stated length over two evolution points "
            "(values symbolic, so for all operator contents); longer histories and more points are not enumerated. OS-level failures are "
            "C38's subject. Nothing is executed: the repository's code is partially evaluated on a model file system.",
    "technique": "exhaustive partial evaluation of bounded operation histories on a model file system against a dictionary model; abstract interpretation of file effects over a finite extension-state domain; exhaustive PE of the approximate lookup",
    "engine": "sa",
}

INV = "eko.io.inventory.Inventory"


def _eval_bool(expr, env):
    """tiny evaluator for the `err=` argument: names, not, constants, `is None`/`is not None` on known names"""
    if isinstance(expr, ast.Constant):
        return bool(expr.value)
    if isinstance(expr, ast.Name):
        return env[expr.id]
    if isinstance(expr, ast.UnaryOp) and isinstance(expr.op, ast.Not):
        return not _eval_bool(expr.operand, env)
    if isinstance(expr, ast.BoolOp):
        vals = [_eval_bool(v, env) for v in expr.values]
        return all(vals) if isinstance(expr.op, ast.And) else any(vals)
    if isinstance(expr, ast.Attribute) and expr.attr in env.get("__properties__", {}):
        return _eval_bool(env["__properties__"][expr.attr], env)      # a boolean property of the operator: its returned expression
    if isinstance(expr, ast.Call) and ((isinstance(expr.func, ast.Attribute) and expr.func.attr == "any" and (
            (expr.args and ast.unparse(expr.args[0]).endswith("error")) or ast.unparse(expr.func.value).endswith("error")))):
        return env["__has_error__"] and not env.get("__error_is_zero__", False)
    if isinstance(expr, ast.Compare) and len(expr.ops) == 1 and isinstance(expr.comparators[0], ast.Constant) \
            and expr.comparators[0].value is None and ast.unparse(expr.left).endswith("error"):
        has_err = env["__has_error__"]
        return has_err if isinstance(expr.ops[0], ast.IsNot) else (not has_err)
    raise KeyError(ast.unparse(expr))


def run(chk):
    src = load()
    pe = PE(src)
    chk.rule_text = "<=1 operator file per stem preserved by __setitem__; unload has no fs effect and adds no key; approx unique/None/error"
    cls, fset, fdel, fget, defs, sites = fs_invariant(chk, src, pe)
    rest(chk, src, pe, cls, fset, fdel, fget, defs, sites)


def fs_invariant(chk, src, pe):
    cls = src.cls(INV)
    fset = cls.methods["__setitem__"]
    fdel = cls.methods["__delitem__"]
    fget = cls.methods["__getitem__"]
    op_ext = pe.get_global("eko.io.inventory", "OPERATOR_EXT")
    chk.need(isinstance(op_ext, list) and len(op_ext) == 2, "OPERATOR_EXT is no longer a two-entry list")

    # ---- (1) abstract fs invariant ---------------------------------------------------------------
    # local definitions: name -> expression
    defs = {}
    for n in ast.walk(fset.node):
        if isinstance(n, ast.Assign) and len(n.targets) == 1 and isinstance(n.targets[0], ast.Name):
            defs[n.targets[0].id] = n.value

    def opname_err(expr, depth=0):
        """if expr denotes  self.path / operator_name(header, err=E)  return E (ast), else None"""
        if depth > 4:
            return None
        if isinstance(expr, ast.Name) and expr.id in defs:
            return opname_err(defs[expr.id], depth + 1)
        for c in _calls(expr):
            if _callee(c).split(".")[-1] == "operator_name":
                for kw in c.keywords:
                    if kw.arg == "err":
                        return kw.value
                if len(c.args) > 1:
                    return c.args[1]
        return None

    sites = _write_sites(fset.node, set())
    writes = [(c, t) for c, t, k in sites if k == "write" and opname_err(t) is not None]
    unlinks = [(c, t) for c, t, k in sites if k == "unlink"]
    chk.need(len(writes) >= 1, "Inventory.__setitem__ no longer writes an operator file named by operator_name(): anchor changed")
    loop_unlink_all_others = False
    for n in ast.walk(fset.node):
        if isinstance(n, ast.For) and ("OPERATOR_EXT" in ast.unparse(n.iter) or "ARRAY_EXT" in ast.unparse(n.iter)):
            if any(k == "unlink" for _, _, k in _write_sites(n, set())):
                loop_unlink_all_others = True
    bad_state = None
    ocls = src.cls("eko.io.items.Operator")
    props = {}
    for nm, m in ocls.methods.items():
        rets = [x for x in ast.walk(m.node) if isinstance(x, ast.Return) and x.value is not None]
        if "property" in m.decorator_names() and len(rets) == 1 and len(m.node.body) <= 2:
            props[nm] = rets[0].value
    for has_error, zero in ((True, False), (True, True), (False, False)):
        env = {"__has_error__": has_error, "__error_is_zero__": zero, "__properties__": props}
        # resolve boolean locals such as with_err
        for name, val in defs.items():
            try:
                env[name] = _eval_bool(val, env)
            except KeyError:
                pass
        try:
            written = {1 if _eval_bool(opname_err(t), env) else 0 for _, t in writes}
            removed = set()
            for c, t in unlinks:
                e = opname_err(t)
                if e is None:
                    continue
                # the removal only counts if it is guaranteed: every enclosing condition must be decidable from the
                # kind of operator being stored (a condition on the cache content, for instance, is not: the previous
                # operator may be unloaded)
                guaranteed = True
                for iff in ast.walk(fset.node):
                    if not isinstance(iff, ast.If):
                        continue
                    in_body = any(m is c for b in iff.body for m in ast.walk(b))
                    in_else = any(m is c for b in iff.orelse for m in ast.walk(b))
                    if not (in_body or in_else):
                        continue
                    try:
                        val = _eval_bool(iff.test, env)
                    except KeyError:
                        guaranteed = False
                        break
                    if (in_body and not val) or (in_else and val):
                        guaranteed = False
                if guaranteed:
                    removed.add(1 if _eval_bool(e, env) else 0)
        except KeyError as ex:
            # the abstract reading of the err= argument is a convenience: the invariant itself is decided on every bounded history
            # of operations on the model file system (section 4), whatever the spelling
            chk.note(abstract_file_effects=f"not extracted: the err= argument depends on {ex}")
            return cls, fset, fdel, fget, defs, sites
        if loop_unlink_all_others:
            removed |= {0, 1} - written
        for prior in (set(), {0}, {1}):
            after = (prior - removed) | written
            if len(after) > 1:
                bad_state = (has_error, prior, after)
    chk.decide(bad_state is None, "one-operator-file-per-stem", fset.qname,
               f"overwriting a stored operator {'without' if bad_state and not bad_state[0] else 'with'} errors when the file "
               f"{[op_ext[i] for i in (bad_state[1] if bad_state else [])]} exists leaves {[op_ext[i] for i in sorted(bad_state[2])] if bad_state else ''} "
               f"for the same header: the next read after unload/re-open fails with 'Too many items'; __setitem__ must remove the "
               f"sibling extension", where=fset.where, instance="stale sibling operator file",
               detail="state {<=1 file} is invariant under __setitem__ for error/no-error operators")
    return cls, fset, fdel, fget, defs, sites


def rest(chk, src, pe, cls, fset, fdel, fget, defs, sites):
    # ---- (2) header written first, on every set ---------------------------------------------------------
    first_ret = next((st.lineno for st in ast.walk(fset.node) if isinstance(st, ast.Return)), 10 ** 9)
    head_writes = [c for c, t, k in sites if k == "write" and "header_name" in ast.unparse(defs.get(getattr(t, "id", ""), t))]
    chk.decide(bool(head_writes) and min(c.lineno for c in head_writes) < first_ret, "header-written-on-every-set", fset.qname,
               "the header file is not written before the first return of __setitem__", where=fset.where,
               detail="header dumped before any return")
    # ---- (3) unloading neither touches the file system nor adds a key: decided on every bounded history (_histories) ------------
    # ---- (4) re-reading after unload, (6) items / iteration / membership: decided on every bounded history (_histories) --------
    # ---- (5) approx ------------------------------------------------------------------------------------------------
    eko_cls = src.cls("eko.io.struct.EKO")
    fap = eko_cls.methods["approx"]
    tcls = src.cls("eko.io.items.Target")
    inv_cls = src.cls(INV)
    # tautological comparison lint (a comparison of an expression with itself filters nothing)
    for n in ast.walk(fap.node):
        if isinstance(n, ast.Compare) and len(n.ops) == 1 and ast.unparse(n.left) == ast.unparse(n.comparators[0]):
            chk.fail("approx-filters-on-query", fap.qname, f"`{ast.unparse(n)}` compares an expression with itself",
                     where=f"{fap.module.relpath}:{n.lineno}", instance=ast.unparse(n))
    S = Fraction
    # the tolerances refer to the mu^2 values of the keys: points 1.5 rtol away (relative) or 1.5 atol away (absolute) are far
    base = [(S(100), 4), (S(100), 5), (S(100) + S(1, 10 ** 9), 5), (S(200), 5), (S(200), 4), (S(100) + S(15, 10 ** 4), 5)]
    queries = [(S(100), 4), (S(100), 5), (S(100), 6), (S(150), 5), (S(200), 5), (S(200) + S(1, 10 ** 10), 4), (S(100) + S(7, 10 ** 4), 5),
               (S(200) + S(3, 10 ** 3), 4)]
    n_cases = 0
    n_bad = 0
    for rtol, atol in ((S(1, 10 ** 5), S(1, 10 ** 10)), (S(0), S(2, 10 ** 3))):
      for r in range(0, 4):
        for store in itertools.combinations(base, r):
              cache = {}
              for (mu, nf) in store:
                  t = pe.instantiate(tcls.qname, [mu, nf])
                  cache[t] = None
              inv = Obj(inv_cls)
              inv.attrs.update(cache=cache, contentless=False)
              eko = Obj(eko_cls)
              eko.attrs.update(operators=inv)
              for q in queries:
                  n_cases += 1
                  close = [p for p in store if p[1] == q[1] and abs(q[0] - p[0]) <= atol + rtol * abs(p[0])]
                  want = "error" if len(close) > 1 else (close[0] if close else None)
                  try:
                      got = pe.apply(pe.getattr(eko, "approx"), [q, rtol, atol], {})
                      if got is not None:
                          got = (Fraction(got[0]), int(got[1]))
                  except PERaise as e:
                      got = "error" if e.etype == "ValueError" else f"raises {e.etype}"
                  if got != want:
                      n_bad += 1
                      if n_bad <= 5:
                          chk.fail("approx-unique-none-or-error", fap.qname,
                                   f"store {[(str(a), b) for a, b in store]}, query ({q[0]}, {q[1]}), rtol={rtol}, atol={atol}: approx gives {got}, a map with "
                                   f"tolerance lookup gives {want}", where=fap.where, instance=f"store={store},q={q},rtol={rtol},atol={atol}")
    if not n_bad:
        chk.ok("approx-unique-none-or-error", fap.qname, f"{n_cases} (store, query) cases", how="exhaustive PE")
    chk.floor("approx cases", n_cases, 100)
    n_hist = _histories(chk, src, 5 if chk.tier == "thorough" else 4)
    chk.note(files=["src/eko/io/inventory.py", "src/eko/io/struct.py"], approx_cases=n_cases, histories=n_hist)
    chk.explanation = ("File-effect invariant of the operator store, typestate of unload, and exhaustive evaluation of the tolerance "
                       "lookup on small stores.")


def _hist_group(rec, arg):
    """worker of the parallel map: all histories that start with one given operation"""
    first, depth = arg
    _histories(rec, load(), depth, first)


def _histories(chk, src, depth, first=None):
    """The operator store against a dictionary model, for EVERY history of at most `depth` operations over two evolution points:
    store with errors / store without errors / unload / read / unload everything / iterate with items() / re-open the directory
    with a fresh object / change a looked-up operator in place and assign the same object again.  After every step the store must list exactly the model's keys (iteration and membership), a read must
    return the model's value element by element (or raise for an absent point), and re-opening must lose nothing.  The
    repository's code runs on the model file system of sa/fsmodel.py."""
    from .. import dag, fsmodel

    ekoc = src.cls("eko.io.struct.EKO")
    acls = src.cls("eko.io.access.AccessConfigs")
    ocls = src.cls("eko.io.items.Operator")
    mdc = src.cls("eko.io.metadata.Metadata")
    eps = [(Fraction(100), 5), (Fraction(100), 4)]     # same scale, different nf: distinct keys
    ops = [("set+err", 0), ("set+err", 1), ("set", 0), ("set", 1), ("unload", 0), ("unload", 1), ("get", 0), ("get", 1),
           ("unload-all",), ("items",), ("reopen",), ("resave", 0)]
    counter = [0]

    def operator(with_err):
        counter[0] += 1
        tag = f"o{counter[0]}"
        o = Obj(ocls)
        o.attrs.update(operator=Arr.from_nested([[[[dag.sym(f"{tag}_{a}{i}{b}{j}") for j in range(2)] for b in range(2)] for i in range(2)] for a in range(2)]),
                       error=Arr.from_nested([[[[dag.sym(f"{tag}e_{a}{i}{b}{j}") for j in range(2)] for b in range(2)] for i in range(2)] for a in range(2)])
                       if with_err else None)
        return o

    def same(x, y):
        if x is None or y is None:
            return x is None and y is None
        return x.shape == y.shape and all(a is b for a, b in zip(x.flat(), y.flat()))

    def bound(pe, o, name):
        from ..pe import Bound, Closure

        m = src.find_method(o.cls, name)
        return Bound(o, Closure(m, m.node, None, m.module, m.qname))

    n_hist = n_steps = bad = 0
    fset = ekoc.methods["__setitem__"]
    if first is None:
        # one group of histories per first operation, evaluated in parallel
        from ..core import pmap

        groups = [0]
        orig_ok = chk.ok

        def counting_ok(*a, **k):
            groups[0] += 1
            return orig_ok(*a, **k)

        chk.ok = counting_ok
        try:
            pmap(chk, _hist_group, [(i, depth) for i in range(len(ops))], jobs=len(ops))
        finally:
            del chk.ok
        total = sum(len(ops) ** l for l in range(1, depth + 1)) + 64
        if not chk.violations:
            chk.floor("groups of histories decided", groups[0], len(ops))
        return total
    # beyond the exhaustive bound, a directed family of six-step histories on one point: store (either format), drop it from memory
    # (unload / unload everything / items / re-open), read, store again (either format), drop, read - whatever the store remembers
    # about a key from an earlier read or write must not survive an overwrite that switches the format
    drops = [("unload", 0), ("unload-all",), ("items",), ("reopen",)]
    directed = [(a, x, ("get", 0), b, y, ("get", 0)) for a in (("set+err", 0), ("set", 0)) for b in (("set+err", 0), ("set", 0))
                for x in drops for y in drops]
    for length in range(1, depth + 2):
        for hist in (itertools.product(ops, repeat=length) if length <= depth else directed):
            if hist[0] != ops[first]:
                continue
            n_hist += 1
            fs = fsmodel.FS()
            pe = PE(src)
            fsmodel.install(pe, fs)
            work = fs.path("/work")
            work.mkdir()
            acc = Obj(acls)
            acc.attrs.update(path=fs.path("/a.tar"), readonly=False, open=True)

            def new_eko():
                invs = pe.call("eko.io.struct.inventories", [work, acc])
                for inv in invs.values():
                    inv.attrs["path"].mkdir(parents=True, exist_ok=True)
                md = Obj(mdc)
                md.attrs.update(origin=(Fraction(2), 4), xgrid="XG", _path=work, version="0", data_version=3)
                e = pe.new_object(ekoc, [], dict(invs, metadata=md, access=acc))
                pe.apply(bound(pe, e.attrs["operators"], "sync"), [], {})
                return e

            eko = new_eko()
            model = {}
            why = None
            for si, step in enumerate(hist):
                n_steps += 1
                try:
                    if step[0].startswith("set"):
                        o = operator(step[0] == "set+err")
                        pe.apply(bound(pe, eko, "__setitem__"), [eps[step[1]], o], {})
                        model[eps[step[1]]] = o
                    elif step[0] == "resave":
                        # the documented way of saving an in-place change: look the operator up, change its array, assign the same object
                        ep = eps[step[1]]
                        if ep in model:
                            g = pe.apply(bound(pe, eko, "__getitem__"), [ep], {})
                            counter[0] += 1
                            g.attrs["operator"][0, 0, 0, 0] = dag.sym(f"changed{counter[0]}")
                            pe.apply(bound(pe, eko, "__setitem__"), [ep, g], {})
                            model[ep] = g
                    elif step[0] == "unload":
                        pe.apply(bound(pe, eko, "__delitem__"), [eps[step[1]]], {})
                    elif step[0] == "get":
                        ep = eps[step[1]]
                        try:
                            g = pe.apply(bound(pe, eko, "__getitem__"), [ep], {})
                            if ep not in model:
                                why = f"step {si + 1} {step}: reading an absent point returns {type(g).__name__} instead of raising"
                            elif not (isinstance(g, Obj) and same(g.attrs.get("operator"), model[ep].attrs["operator"]) and same(g.attrs.get("error"), model[ep].attrs["error"])):
                                why = f"step {si + 1} {step}: the operator read differs from the one stored last"
                        except PERaise as e:
                            if ep in model:
                                why = f"step {si + 1} {step}: reading a stored point raises {e}"
                    elif step[0] == "unload-all":
                        pe.apply(bound(pe, eko, "unload"), [], {})
                    elif step[0] == "items":
                        its = list(pe.apply(bound(pe, eko, "items"), [], {}))
                        got = {tuple(k): v for k, v in its}
                        if set(map(str, got)) != set(map(str, model)) or not all(same(got[k].attrs["operator"], model[k].attrs["operator"]) for k in model):
                            why = f"step {si + 1}: items() yields {[tuple(map(str, k)) for k in got]}, the model holds {[tuple(map(str, k)) for k in model]}"
                        left = [k for k, v in eko.attrs["operators"].attrs["cache"].items() if v is not None]
                        if left:
                            why = f"step {si + 1}: items() leaves {len(left)} operator(s) loaded"
                    elif step[0] == "reopen":
                        eko = new_eko()
                except PERaise as e:
                    why = f"step {si + 1} {step}: raises {e}"
                if why is None:
                    keys = [tuple(k) for k in pe.iterate(eko)]
                    member = [pe._contains(eko, ep) for ep in eps]
                    if sorted(map(str, keys)) != sorted(map(str, model)) or member != [ep in model for ep in eps]:
                        why = (f"after step {si + 1} {step}: the store lists {[tuple(map(str, k)) for k in keys]} (membership {member}), "
                               f"a map holds {[tuple(map(str, k)) for k in model]}")
                if why:
                    break
            if why:
                bad += 1
                if bad <= 5:
                    chk.fail("store-agrees-with-a-map-on-every-history", fset.qname,
                             f"history {[s[0] + (':' + str(eps[s[1]][1]) if len(s) > 1 else '') for s in hist]}: {why}", where=fset.where,
                             instance=",".join(s[0] + (str(s[1]) if len(s) > 1 else "") for s in hist))
    if not bad:
        chk.ok("store-agrees-with-a-map-on-every-history", fset.qname,
               f"{n_hist} histories of up to {depth} operations (and the directed six-step family) ({n_steps} steps) over two evolution points", how="exhaustive PE on a model file system")
    return n_hist
