"""C37 - the EKO operator store behaves like a persistent map under any history (abstract fs invariant + PE of lookup)."""
from __future__ import annotations

import ast
import itertools
from fractions import Fraction

from ..arr import Arr
from ..pe import PE, Obj, PERaise
from ..src import load, stmt_text
from .c38 import _calls, _callee, _perm_aliases, _write_sites

LEVEL = "other"
META = {
    "text": "(1) Abstract file-system invariant: per header stem at most one operator file (.npy.lz4 or .npz.lz4) exists. "
            "Inventory.__setitem__'s file effects (the extension written and the extensions removed, as functions of `operator.error "
            "is None`) are extracted and the invariant is shown to be preserved from every abstract state - i.e. an overwrite that "
            "switches between the with-error and the without-error format must remove the sibling file, otherwise a later read "
            "finds two files and fails. (2) the header is written on every set, before any early return. (3) __delitem__/empty/"
            "unload have no file-system effect and never add a key (unloading an absent point must not create a phantom member). "
            "(4) __getitem__ re-reads from disk whenever the cached value is None. (5) EKO.approx is partially evaluated on "
            "concrete stores covering every ordering (same/different nf at equal scale, scales inside/outside tolerance): it "
            "returns the unique point within tolerance with the query's nf, None, or raises when ambiguous. (6) items() unloads "
            "every operator it loaded; __iter__/__contains__ enumerate exactly the store's keys.",
    "note": "Necessary structural conditions of the persistent-map behaviour; the step-by-step equivalence with a dictionary "
            "model under arbitrary histories is a dynamic property and is not decided. Nothing is executed.",
    "technique": "abstract interpretation of file effects over a finite extension-state domain + typestate rules + exhaustive PE of the approximate lookup",
    "engine": "sa",
}

INV = "eko.io.inventory.Inventory"


def _eval_bool(expr, env):
    """tiny evaluator for the `err=` argument: names, not, constants, `is None`/`is not None` on known names"""
    if isinstance(expr, ast.Constant):
        return bool(expr.value)
    if isinstance(expr, ast.Name):
        return env[expr.id]
    if isinstance(expr, ast.UnaryOp) and isinstance(expr.op, ast.Not):
        return not _eval_bool(expr.operand, env)
    if isinstance(expr, ast.Compare) and len(expr.ops) == 1 and isinstance(expr.comparators[0], ast.Constant) \
            and expr.comparators[0].value is None and ast.unparse(expr.left).endswith("error"):
        has_err = env["__has_error__"]
        return has_err if isinstance(expr.ops[0], ast.IsNot) else (not has_err)
    raise KeyError(ast.unparse(expr))


def run(chk):
    src = load()
    pe = PE(src)
    chk.rule_text = "<=1 operator file per stem preserved by __setitem__; unload has no fs effect and adds no key; approx unique/None/error"
    cls, fset, fdel, fget, defs, sites = fs_invariant(chk, src, pe)
    rest(chk, src, pe, cls, fset, fdel, fget, defs, sites)


def fs_invariant(chk, src, pe):
    cls = src.cls(INV)
    fset = cls.methods["__setitem__"]
    fdel = cls.methods["__delitem__"]
    fget = cls.methods["__getitem__"]
    op_ext = pe.get_global("eko.io.inventory", "OPERATOR_EXT")
    chk.need(isinstance(op_ext, list) and len(op_ext) == 2, "OPERATOR_EXT is no longer a two-entry list")

    # ---- (1) abstract fs invariant ---------------------------------------------------------------
    # local definitions: name -> expression
    defs = {}
    for n in ast.walk(fset.node):
        if isinstance(n, ast.Assign) and len(n.targets) == 1 and isinstance(n.targets[0], ast.Name):
            defs[n.targets[0].id] = n.value

    def opname_err(expr, depth=0):
        """if expr denotes  self.path / operator_name(header, err=E)  return E (ast), else None"""
        if depth > 4:
            return None
        if isinstance(expr, ast.Name) and expr.id in defs:
            return opname_err(defs[expr.id], depth + 1)
        for c in _calls(expr):
            if _callee(c).split(".")[-1] == "operator_name":
                for kw in c.keywords:
                    if kw.arg == "err":
                        return kw.value
                if len(c.args) > 1:
                    return c.args[1]
        return None

    sites = _write_sites(fset.node, set())
    writes = [(c, t) for c, t, k in sites if k == "write" and opname_err(t) is not None]
    unlinks = [(c, t) for c, t, k in sites if k == "unlink"]
    chk.need(len(writes) >= 1, "Inventory.__setitem__ no longer writes an operator file named by operator_name(): anchor changed")
    loop_unlink_all_others = False
    for n in ast.walk(fset.node):
        if isinstance(n, ast.For) and ("OPERATOR_EXT" in ast.unparse(n.iter) or "ARRAY_EXT" in ast.unparse(n.iter)):
            if any(k == "unlink" for _, _, k in _write_sites(n, set())):
                loop_unlink_all_others = True
    bad_state = None
    for has_error in (True, False):
        env = {"__has_error__": has_error}
        # resolve boolean locals such as with_err
        for name, val in defs.items():
            try:
                env[name] = _eval_bool(val, env)
            except KeyError:
                pass
        try:
            written = {1 if _eval_bool(opname_err(t), env) else 0 for _, t in writes}
            removed = set()
            for c, t in unlinks:
                e = opname_err(t)
                if e is None:
                    continue
                # the removal only counts if it is guaranteed: every enclosing condition must be decidable from the
                # kind of operator being stored (a condition on the cache content, for instance, is not: the previous
                # operator may be unloaded)
                guaranteed = True
                for iff in ast.walk(fset.node):
                    if not isinstance(iff, ast.If):
                        continue
                    in_body = any(m is c for b in iff.body for m in ast.walk(b))
                    in_else = any(m is c for b in iff.orelse for m in ast.walk(b))
                    if not (in_body or in_else):
                        continue
                    try:
                        val = _eval_bool(iff.test, env)
                    except KeyError:
                        guaranteed = False
                        break
                    if (in_body and not val) or (in_else and val):
                        guaranteed = False
                if guaranteed:
                    removed.add(1 if _eval_bool(e, env) else 0)
        except KeyError as ex:
            chk.need(False, f"cannot evaluate the err= argument {ex} of operator_name in __setitem__")
        if loop_unlink_all_others:
            removed |= {0, 1} - written
        for prior in (set(), {0}, {1}):
            after = (prior - removed) | written
            if len(after) > 1:
                bad_state = (has_error, prior, after)
    chk.decide(bad_state is None, "one-operator-file-per-stem", fset.qname,
               f"overwriting a stored operator {'without' if bad_state and not bad_state[0] else 'with'} errors when the file "
               f"{[op_ext[i] for i in (bad_state[1] if bad_state else [])]} exists leaves {[op_ext[i] for i in sorted(bad_state[2])] if bad_state else ''} "
               f"for the same header: the next read after unload/re-open fails with 'Too many items'; __setitem__ must remove the "
               f"sibling extension", where=fset.where, instance="stale sibling operator file",
               detail="state {<=1 file} is invariant under __setitem__ for error/no-error operators")
    return cls, fset, fdel, fget, defs, sites


def rest(chk, src, pe, cls, fset, fdel, fget, defs, sites):
    # ---- (2) header written first, on every set ---------------------------------------------------------
    first_ret = next((st.lineno for st in ast.walk(fset.node) if isinstance(st, ast.Return)), 10 ** 9)
    head_writes = [c for c, t, k in sites if k == "write" and "header_name" in ast.unparse(defs.get(getattr(t, "id", ""), t))]
    chk.decide(bool(head_writes) and min(c.lineno for c in head_writes) < first_ret, "header-written-on-every-set", fset.qname,
               "the header file is not written before the first return of __setitem__", where=fset.where,
               detail="header dumped before any return")
    # ---- (3) unload has no fs effect and never adds a key ---------------------------------------------------
    for name in ("__delitem__", "empty"):
        f = cls.methods[name]
        chk.decide(not _write_sites(f.node, set()), "unload-has-no-fs-effect", f.qname, f"{f.qname} touches the file system",
                   where=f.where, detail="no fs effect")
    stores = [n for n in ast.walk(fdel.node) if isinstance(n, ast.Assign) and any("self.cache" in ast.unparse(t) for t in n.targets)]
    guarded = True
    for stn in stores:
        ok = False
        for iff in ast.walk(fdel.node):
            if isinstance(iff, ast.If) and any(m is stn for b in iff.body for m in ast.walk(b)):
                t = iff.test
                if isinstance(t, ast.Compare) and isinstance(t.ops[0], ast.In) and "self.cache" in ast.unparse(t.comparators[0]):
                    ok = True
        guarded = guarded and ok
    chk.decide(guarded, "unload-never-adds-a-key", fdel.qname,
               f"`{stmt_text(stores[0]) if stores else ''}` also runs for a header that is not in the inventory: `del eko[ep]` (or the "
               f"`operator(ep)` context manager) on an absent point creates a phantom member that is listed by iteration and "
               f"membership but cannot be read", where=fdel.where, instance="store without membership test",
               detail="cache store under `if header in self.cache`")
    # ---- (4) __getitem__ re-reads when the cached value is None ------------------------------------------------
    txt = ast.unparse(fget.node)
    chk.decide("op is not None or self.contentless" in txt and "Operator.load" in txt and "self.cache[header] = op" in txt,
               "getitem-rereads-after-unload", fget.qname, "__getitem__ no longer reloads an unloaded operator from disk and caches it",
               where=fget.where)
    # ---- (5) approx ------------------------------------------------------------------------------------------------
    eko_cls = src.cls("eko.io.struct.EKO")
    fap = eko_cls.methods["approx"]
    tcls = src.cls("eko.io.items.Target")
    inv_cls = src.cls(INV)
    # tautological comparison lint (a comparison of an expression with itself filters nothing)
    for n in ast.walk(fap.node):
        if isinstance(n, ast.Compare) and len(n.ops) == 1 and ast.unparse(n.left) == ast.unparse(n.comparators[0]):
            chk.fail("approx-filters-on-query", fap.qname, f"`{ast.unparse(n)}` compares an expression with itself",
                     where=f"{fap.module.relpath}:{n.lineno}", instance=ast.unparse(n))
    S = Fraction
    base = [(S(100), 4), (S(100), 5), (S(100) + S(1, 10 ** 9), 5), (S(200), 5), (S(200), 4)]
    queries = [(S(100), 4), (S(100), 5), (S(100), 6), (S(150), 5), (S(200), 5), (S(200) + S(1, 10 ** 10), 4)]
    rtol, atol = S(1, 10 ** 5), S(1, 10 ** 10)
    n_cases = 0
    n_bad = 0
    for r in range(0, 4):
        for store in itertools.combinations(base, r):
            cache = {}
            for (mu, nf) in store:
                t = pe.instantiate(tcls.qname, [mu, nf])
                cache[t] = None
            inv = Obj(inv_cls)
            inv.attrs.update(cache=cache, contentless=False)
            eko = Obj(eko_cls)
            eko.attrs.update(operators=inv)
            for q in queries:
                n_cases += 1
                close = [p for p in store if p[1] == q[1] and abs(q[0] - p[0]) <= atol + rtol * abs(p[0])]
                want = "error" if len(close) > 1 else (close[0] if close else None)
                try:
                    got = pe.apply(pe.getattr(eko, "approx"), [q, rtol, atol], {})
                    if got is not None:
                        got = (Fraction(got[0]), int(got[1]))
                except PERaise as e:
                    got = "error" if e.etype == "ValueError" else f"raises {e.etype}"
                if got != want:
                    n_bad += 1
                    if n_bad <= 5:
                        chk.fail("approx-unique-none-or-error", fap.qname,
                                 f"store {[(str(a), b) for a, b in store]}, query ({q[0]}, {q[1]}): approx gives {got}, a map with "
                                 f"tolerance lookup gives {want}", where=fap.where, instance=f"store={store},q={q}")
    if not n_bad:
        chk.ok("approx-unique-none-or-error", fap.qname, f"{n_cases} (store, query) cases", how="exhaustive PE")
    chk.floor("approx cases", n_cases, 100)
    # ---- (6) items() unloads; iteration/membership enumerate the store keys -----------------------------------------
    fitems = eko_cls.methods["items"]
    has_yield = any(isinstance(n, ast.Yield) for n in ast.walk(fitems.node))
    dels = [n for n in ast.walk(fitems.node) if isinstance(n, ast.Delete)]
    chk.decide(has_yield and bool(dels), "items-unloads-what-it-loaded", fitems.qname, "items() no longer unloads after yielding",
               where=fitems.where)
    it = eko_cls.methods["__iter__"]
    co = eko_cls.methods["__contains__"]
    chk.decide("self.operators" in ast.unparse(it.node) and ".ep" in ast.unparse(it.node) and "self.operators" in ast.unparse(co.node)
               and "Target.from_ep" in ast.unparse(co.node), "iteration-and-membership-use-the-store", eko_cls.qname,
               "EKO.__iter__/__contains__ no longer enumerate/test the keys of the operators inventory", where=it.where)
    chk.note(files=["src/eko/io/inventory.py", "src/eko/io/struct.py"], approx_cases=n_cases)
    chk.explanation = ("File-effect invariant of the operator store, typestate of unload, and exhaustive evaluation of the tolerance "
                       "lookup on small stores.")
