"""C29 - matching elements obey sum rules and the renormalisation-group L-structure."""
from __future__ import annotations

from fractions import Fraction

import sympy as sp

from .. import dag, ekore_model as em, hvals
from ..arr import Arr
from ..pe import PE, PERaise
from ..src import load

LEVEL = "other"
META = {
    "text": "(1) SUM RULES: the unpolarised space-like matching dispatchers are partially evaluated at N=2 and N=1 with the harmonic "
            "sums as atoms, which are then given their exact special values: for every order slice a_s^1..a_s^3, nf 3-5 and L "
            "kept symbolic (first two orders: the column sums are polynomials in L that must vanish identically) or sampled in "
            "[-3,3] (third order, parametrised: within the documented accuracy), momentum is conserved in the gluon, light-"
            "quark and heavy-quark columns (A_g. + A_q. + A_H. = 0 at N=2, also for MSbar masses) and quark number in the "
            "non-singlet entries (light and heavy) at N=1. (2) L-STRUCTURE at first order from renormalisation-group "
            "invariance of the matched distributions, dA/dL = gamma_embedded^(nf) - gamma^(nf+1) with the anomalous dimensions "
            "EXTRACTED FROM THE TREE and the heavy entry being the h+ = h + hbar combination the matching uses: heavy<-gluon "
            "slope = -gamma_qg/nf (space-like, unpolarised and polarised) resp. -gamma^T_{Sigma g}/nf (time-like, roles of the "
            "off-diagonal kernels swapped), gluon<-heavy = -gamma_gq, heavy<-heavy = -gamma_ns, gluon<-gluon = gamma_gg(nf) - "
            "gamma_gg(nf+1) = -(beta0(nf) - beta0(nf+1)); identities in N. The time-like heavy<-gluon element is the single-"
            "quark expression and misses the factor two of h + hbar (known finding). (3) CONTINUATION: (1) and (2) are decided "
            "at integer moments / as identities of the first-order expressions. (2b) HIGHER ORDERS, non-singlet: differentiating f'(nf+1) = A f(nf) "
            "in ln mu^2 gives dA/dL + beta'(a') dA/da' = A (gamma(a) - gamma'(a')); with the coupling's decoupling this fixes all five "
            "logarithmic coefficients of a_s^2 A2(L) + a_s^3 A3(L) from lower orders - checked at the odd moments N = 3, 5, 7, nf 3-5, "
            "with exact values of the harmonic sums and the tree's own anomalous dimensions (through three loops), beta0 and upward "
            "decoupling table (inverted in the check): exact to 1e-10 for four of them, 2e-3 for the one that needs the parametrised "
            "three-loop anomalous dimension. The same in matrix form for the SINGLET 3x3 matching (basis gluon, light singlet, heavy h+; "
            "gamma' = the (nf+1)-flavour singlet and non-singlet evolution written in that basis): the L coefficient at first order, L^2 "
            "and L at second order, L^3 and L^2 at third order, for the gluon and light-quark columns, at N = 4, 6, 8 and nf 3-5, exact to "
            "1e-10; off the integers the higher-order L-coefficients "
            "keep their RG form only if every parity-dependent harmonic sum requested inside a matching element is continued "
            "with that element's definite parity - every such request passes a literal boolean, the caller's own flag or a "
            "configuration-computed boolean (call-site rule shared with C26, restricted to the matching elements).",
    "note": "Level 'other': in the singlet sector the a_s^3 L^1 coefficient (which needs the three-loop singlet anomalous dimensions) "
            "and the heavy-input column beyond first order (not implemented in the tree) are not decided; third-order sum rules and the "
            "non-singlet a_s^3 L^1 coefficient hold only to the accuracy of the parametrisations. The polarised second-order elements are not "
            "decided beyond first order: evaluated with the same recursion, five of the six gluon/light-quark-column entries agree to "
            "1e-30, the heavy<-gluon single logarithm differs from the prediction by an nf-independent amount, which may be a "
            "scheme convention (Larin vs M scheme of the cited results) - not established either way, hence neither claimed nor "
            "reported.",
    "technique": "partial evaluation at the sum-rule moments + exact special values of harmonic sums; differentiation in L + polynomial identity testing against anomalous dimensions extracted from the tree; definite-parity-flag call-site rule over the matching elements",
    "engine": "sa",
}

OME = "ekore.operator_matrix_elements"
AD = "ekore.anomalous_dimensions"
TOL_EXACT = 1e-12
TOL3 = (2e-3, 2e-3)  # third order: momentum, number (sizes of the repository's own tests of the parametrised a_s^3 terms)


def _sym(x, ft):
    e = sp.expand(dag.to_sympy(dag.tonode(x), fntab=ft))
    return e


_CONST = {"z2": sp.zeta(2), "z3": sp.zeta(3), "z4": sp.zeta(4), "z5": sp.zeta(5), "zeta2": sp.zeta(2), "zeta3": sp.zeta(3),
          "zeta4": sp.zeta(4), "zeta5": sp.zeta(5), "log2": sp.log(2), "ln2": sp.log(2), "li4half": sp.polylog(4, sp.Rational(1, 2)), "pi": sp.pi}


def _num(e):
    e = sp.sympify(e)
    if e.free_symbols:
        e = e.subs({x: _CONST[x.name] for x in e.free_symbols if x.name in _CONST})
    if e.free_symbols:
        return None
    try:
        return float(e)
    except TypeError:
        return float(hvals.numeric(e, 25))


def run(chk):
    src = load()
    pe = PE(src, assume=em.assume_generic_moment)
    em.install_cache_atoms(pe)
    em.install_special_function_atoms(pe)
    ft = hvals.fntab()
    chk.rule_text = "column sums at N=2 / NS entries at N=1 vanish for all L; dA1/dL == gamma_emb(nf) - gamma(nf+1) entry by entry"
    chk.trusted += ["sa/hvals.py exact special values", "sympy"]
    fS = src.func(f"{OME}.unpolarized.space_like.A_singlet")
    fN = src.func(f"{OME}.unpolarized.space_like.A_non_singlet")
    Ls = sp.Symbol("L")
    L = dag.sym("L")
    n_ob = 0

    def vanishes(expr, tol, Lvals=(-3, -1, 0, 2, 3)):
        """expr polynomial in L (sympy): max |value| over samples, and whether it is identically zero"""
        e = sp.expand(expr)
        if e == 0:
            return True, 0.0
        vals = []
        for lv in Lvals:
            v = e.subs(Ls, lv)
            v = _num(sp.expand(v))
            if v is None:
                return False, float("nan")
            vals.append(abs(v))
        return max(vals) <= tol, max(vals)

    for nf in (3, 4, 5):
        for msbar in (False, True):
            try:
                A = pe.call(fS.qname, [(2, 0), 2, nf, L, msbar])
            except PERaise as e:
                chk.fail("momentum-conservation", fS.qname, f"nf={nf}: cannot be evaluated at N=2: {e}", where=fS.where, instance=f"nf={nf},{msbar}")
                continue
            # third order: the light-quark column has terms 1/(N-2) that only cancel in the limit (documented in the repository's
            # own test): only its gluon column can be evaluated at exactly N = 2; its heavy column is identically zero
            U3 = f"{OME}.unpolarized.space_like.as3"
            cache3 = pe.call("ekore.harmonics.cache.reset", [])
            third = None
            if not msbar:
                try:
                    third = [pe.call(f"{U3}.{nm}.{fn}", [2, cache3, nf, L]) for nm, fn in (("agg", "A_gg"), ("aqg", "A_qg"), ("aHg", "A_Hg"))]
                except PERaise as e:
                    chk.fail("momentum-conservation", f"{U3}.A_singlet", f"nf={nf}: third-order gluon column cannot be evaluated at N=2: {e}",
                             instance=f"nf={nf},k=2")
            for k in range(A.shape[0] + (1 if third else 0)):
                for col, cname in enumerate(("gluon", "light-quark", "heavy-quark")):
                    if k == 2:
                        if col != 0:
                            continue
                        s = _sym(dag.addn([dag.tonode(x) for x in third]), ft)
                    else:
                        s = _sym(dag.addn([A[k, r, col] for r in range(3)]), ft)
                    tol = TOL_EXACT if k < 2 else TOL3[0]
                    ok, v = vanishes(s, tol)
                    n_ob += 1
                    chk.decide(ok, "momentum-conservation", fS.qname,
                               f"nf={nf}, a_s^{k + 1}{', MSbar masses' if msbar else ''}, {cname} column: A_g + A_q + A_H at N=2 reaches {v:.3e} for L in "
                               f"[-3,3] (allowed {tol:g})", where=fS.where, instance=f"nf={nf},k={k},{cname},msbar={msbar}", detail=f"{v:.2e} <= {tol:g}",
                               how="exact special values")
        try:
            B = pe.call(fN.qname, [(3, 0), 1, nf, L])
        except PERaise as e:
            # removable singularity at exactly N = 1 in a parametrised term: decide the lower orders
            B = None
            try:
                B = pe.call(fN.qname, [(2, 0), 1, nf, L])
            except PERaise as e2:
                chk.fail("number-conservation", fN.qname, f"nf={nf}: cannot be evaluated at N=1: {e2}", where=fN.where, instance=f"nf={nf}")
        if B is not None:
            for k in range(B.shape[0]):
                for idx, cname in ((0, "light"), (1, "heavy")):
                    s = _sym(B[k, idx, idx], ft)
                    tol = TOL_EXACT if k < 2 else TOL3[1]
                    ok, v = vanishes(s, tol)
                    n_ob += 1
                    chk.decide(ok, "number-conservation", fN.qname, f"nf={nf}, a_s^{k + 1}, {cname} non-singlet entry at N=1 reaches {v:.3e} for L in [-3,3] "
                               f"(allowed {tol:g})", where=fN.where, instance=f"nf={nf},k={k},{cname}", detail=f"{v:.2e} <= {tol:g}", how="exact special values")
    chk.floor("sum-rule obligations", n_ob, 50)
    # ---- (2) L-structure at first order -------------------------------------------------------------------------------------------
    N = dag.sym("N")
    nf = dag.sym("nf")
    pe2 = PE(src, assume=em.assume_generic_moment)
    em.install_cache_atoms(pe2)
    em.install_special_function_atoms(pe2)
    cache = pe2.call("ekore.harmonics.cache.reset", [])

    def slope(x):
        return dag.diff(dag.tonode(x), "L")

    def eq(a, b):
        return dag.is_zero_fp([dag.sub(dag.tonode(a), dag.tonode(b))], chk.seed, 2)

    byname = {"N": N, "n": N, "nf": nf, "cache": cache, "L": L}

    def call(q, args=None):
        if args is None or True:
            params = src.func(q).params
            if all(p in byname for p in params):
                return pe2.call(q, [byname[p] for p in params])
        return pe2.call(q, args)

    def gg_diff(adq, *extra):
        lo = call(adq)
        hi = dag.substitute(dag.tonode(lo), {"nf": dag.add(nf, dag.const(1))})
        return dag.sub(dag.tonode(lo), hi)

    cases = []
    # unpolarised space-like
    U, UA = f"{OME}.unpolarized.space_like.as1", f"{AD}.unpolarized.space_like.as1"
    cases.append(("unpolarised space-like", "heavy<-gluon", f"{U}.A_hg", slope(call(f"{U}.A_hg", [N, L])),
                  dag.neg(dag.div(dag.tonode(call(f"{UA}.gamma_qg", [N, nf])), nf)), "-gamma_qg(nf)/nf"))
    cases.append(("unpolarised space-like", "gluon<-heavy", f"{U}.A_gh", slope(call(f"{U}.A_gh", [N, L])),
                  dag.neg(dag.tonode(call(f"{UA}.gamma_gq", [N]))), "-gamma_gq"))
    cases.append(("unpolarised space-like", "heavy<-heavy", f"{U}.A_hh", slope(call(f"{U}.A_hh", [N, cache, L])),
                  dag.neg(dag.tonode(call(f"{UA}.gamma_ns", [N, cache]))), "-gamma_ns"))
    cases.append(("unpolarised space-like", "gluon<-gluon", f"{U}.A_gg", slope(call(f"{U}.A_gg", [L])), gg_diff(f"{UA}.gamma_gg"),
                  "gamma_gg(nf) - gamma_gg(nf+1)"))
    # polarised space-like
    P, PA = f"{OME}.polarized.space_like.as1", f"{AD}.polarized.space_like.as1"
    cases.append(("polarised space-like", "heavy<-gluon", f"{P}.A_hg", slope(call(f"{P}.A_hg", [N, L])),
                  dag.neg(dag.div(dag.tonode(call(f"{PA}.gamma_qg", [N, nf])), nf)), "-gamma_qg(nf)/nf"))
    cases.append(("polarised space-like", "gluon<-gluon", f"{P}.A_gg", slope(call(f"{P}.A_gg", [L])), gg_diff(f"{PA}.gamma_gg"),
                  "gamma_gg(nf) - gamma_gg(nf+1)"))
    # time-like: the singlet matrix of the tree is [[qq, Sigma<-g], [g<-Sigma, gg]] with the Sigma<-g entry summed over nf flavours
    T, TA = f"{OME}.unpolarized.time_like.as1", f"{AD}.unpolarized.time_like.as1"
    tl = call(f"{TA}.gamma_singlet", [N, nf, cache])
    cases.append(("time-like", "heavy<-gluon", f"{T}.A_hg", slope(call(f"{T}.A_hg", [N, L])), dag.neg(dag.div(dag.tonode(tl[0, 1]), nf)),
                  "-gamma^T[Sigma<-g](nf)/nf"))
    cases.append(("time-like", "gluon<-gluon", f"{T}.A_gg", slope(call(f"{T}.A_gg", [L])),
                  dag.sub(dag.tonode(tl[1, 1]), dag.substitute(dag.tonode(tl[1, 1]), {"nf": dag.add(nf, dag.const(1))})), "gamma_gg(nf) - gamma_gg(nf+1)"))
    for kind, entry, q, got, want, text in cases:
        ok, info = eq(got, want)
        f = src.func(q)
        ratio = ""
        if not ok:
            try:
                r = sp.simplify(dag.to_sympy(dag.div(got, want)))
                ratio = f" (found/required = {r})"
            except Exception:
                pass
        chk.decide(ok, "first-order-log-follows-from-rg-invariance", q,
                   f"{kind}, {entry}: dA/dL != {text}{ratio}: the matched distribution (the heavy entry is h + hbar) does not evolve with the "
                   f"(nf+1)-flavour anomalous dimensions", where=f.where, instance=f"{kind},{entry}", data={"witness": info},
                   how="differentiation in L + PIT against the tree's anomalous dimensions")
    # constants must not depend on L beyond first power at this order
    for q, args in ((f"{U}.A_hg", [N, L]), (f"{U}.A_gh", [N, L]), (f"{U}.A_hh", [N, cache, L]), (f"{P}.A_hg", [N, L]), (f"{T}.A_hg", [N, L])):
        d2 = dag.diff(slope(call(q, args)), "L")
        ok, info = dag.is_zero_fp([d2], chk.seed, 2)
        chk.decide(ok, "first-order-log-follows-from-rg-invariance", q, "the first-order element is not linear in L", where=src.func(q).where,
                   instance="linear:" + q.split(".")[-3] + q.split(".")[-1])
    # ---- (2b) second- and third-order logarithms of the non-singlet element from RG invariance -------------------------------------
    n_rg = _ns_higher_logs(chk, src, pe, ft)
    chk.floor("higher-order non-singlet RG identities", n_rg, 30)
    n_rgs = _singlet_higher_logs(chk, src, pe, ft)
    chk.floor("singlet RG identities", n_rgs, 40)
    # ---- continuation off the integer moments: the alternating sums of a matching element carry the element's parity -----------
    # The identities above are decided at integer moments, where (-1)**N equals the parity of the element.  For complex N they
    # survive only if every parity-dependent harmonic sum requested inside the matching elements gets the element's definite
    # parity flag (otherwise the sum is continued with e^(i pi N) and the L-coefficients built from it break RG invariance).
    from .c26 import parity_rule

    sites = parity_rule(chk, src, {}, scope=("ekore.operator_matrix_elements.",), rule="sums-continued-with-the-element-parity", floors=False)
    chk.floor("parity-dependent requests inside matching elements", sites["True"] + sites["False"] + sites["pass-through"] + sites["computed boolean"], 25)
    chk.note(sum_rule_obligations=n_ob, parity_sites=dict(sites), files=["src/ekore/operator_matrix_elements/**", "src/ekore/anomalous_dimensions/**/as1.py"])
    chk.explanation = "Sum rules with exact special values for all L; first-order logs from RG invariance against the tree's anomalous dimensions."


def _ns_higher_logs(chk, src, pe, ft):
    """f'(nf+1) = A(a', L) f(nf) for the non-singlet distributions, a' the (nf+1)-flavour coupling:  differentiating in ln mu^2,

        dA/dL + beta'(a') dA/da' = A (gamma(a) - gamma'(a')),      a = a' + d1(L) a'^2 + d2(L) a'^3   (coupling decoupling, downwards)

    fixes every logarithmic coefficient of A = 1 + a'^2 A2(L) + a'^3 A3(L) in terms of lower orders:
        2 A2_2 = gamma0 d1_1                         A2_1 = gamma1(nf) - gamma1(nf+1)
        3 A3_3 = 2 beta0' A2_2 + gamma0 d2_2         2 A3_2 = 2 beta0' A2_1 + gamma0 d2_1 + 2 gamma1(nf) d1_1
          A3_1 = 2 beta0' A2_0 + gamma0 d2_0 + gamma2(nf) - gamma2(nf+1)        (three-loop anomalous dimension: parametrised)
    Everything on the right is taken from the tree (anomalous dimensions, beta0, the coupling's upward decoupling table, inverted
    here) and evaluated, like the left-hand side, at odd integer moments with the exact values of the harmonic sums."""
    Ls = sp.Symbol("L")
    L = dag.sym("L")
    fN = src.func(f"{OME}.unpolarized.space_like.A_non_singlet")
    n = 0
    for nf in (3, 4, 5):
        cup = pe.call("eko.couplings.compute_matching_coeffs_up", ["POLE", nf])
        c11, c22, c21, c20 = (sp.nsimplify(_num(_sym(cup[i, j], ft)), rational=True) for i, j in ((1, 1), (2, 2), (2, 1), (2, 0)))
        d11, d22, d21, d20 = -c11, 2 * c11 ** 2 - c22, -c21, -c20
        b0p = _sym(pe.call("eko.beta.beta_qcd", [(2, 0), nf + 1]), ft)
        for N in (3, 5, 7):
            inst = f"nf={nf},N={N}"
            try:
                B = pe.call(fN.qname, [(3, 0), N, nf, L])
                A2 = sp.Poly(_sym(B[1, 0, 0], ft), Ls)
                A3 = sp.Poly(_sym(B[2, 0, 0], ft), Ls)
                g = {m: [_sym(x, ft) for x in pe.call(f"{AD}.unpolarized.space_like.gamma_ns", [(3, 0), 10201, N, m, (0,) * 7, True]).flat()] for m in (nf, nf + 1)}
            except (PERaise, ValueError) as e:   # ValueError: a harmonic sum asked for at an integer moment with a parity flag that contradicts it
                chk.fail("higher-order-logs-follow-from-rg-invariance", fN.qname, f"{inst}: cannot be evaluated: {e}", where=fN.where, instance=inst)
                continue
            a2 = {k: A2.coeff_monomial(Ls ** k) for k in range(3)}
            a3 = {k: A3.coeff_monomial(Ls ** k) for k in range(4)}
            g0, g1, g1p, g2, g2p = g[nf][0], g[nf][1], g[nf + 1][1], g[nf][2], g[nf + 1][2]
            rules = [
                ("a_s^2 L^2", 2 * a2[2], g0 * d11, 1e-10),
                ("a_s^2 L^1", a2[1], g1 - g1p, 1e-10),
                ("a_s^3 L^3", 3 * a3[3], 2 * b0p * a2[2] + g0 * d22, 1e-10),
                ("a_s^3 L^2", 2 * a3[2], 2 * b0p * a2[1] + g0 * d21 + 2 * g1 * d11, 1e-10),
                ("a_s^3 L^1", a3[1], 2 * b0p * a2[0] + g0 * d20 + g2 - g2p, 2e-3),   # parametrised three-loop non-singlet anomalous dimension
            ]
            for name, lhs, rhs, tol in rules:
                lv, rv = _num(sp.expand(lhs)), _num(sp.expand(rhs))
                ok = lv is not None and rv is not None and abs(lv - rv) <= tol * max(1.0, abs(rv))
                n += 1
                chk.decide(ok, "higher-order-logs-follow-from-rg-invariance", fN.qname,
                           f"{inst}, {name} coefficient of A_qq^NS: found {lv}, renormalisation-group invariance with the tree's anomalous "
                           f"dimensions, beta0(nf+1) and coupling decoupling requires {rv} (relative tolerance {tol:g})", where=fN.where,
                           instance=f"{inst},{name}", detail=f"{lv} vs {rv}", how="exact special values at odd moments + RG recursion")
    return n


def _singlet_higher_logs(chk, src, pe, ft):
    """The singlet analogue of _ns_higher_logs in the basis (g, light singlet, heavy h+ = h + hbar) of the tree's 3x3 matching
    matrix:   dA/dL + beta'(a') dA/da' = A gamma(a) - gamma'(a') A   with gamma the nf-flavour singlet matrix (heavy decoupled) and
    gamma' the (nf+1)-flavour evolution written in the same basis (singlet 2x2 on (g, Sigma' = q + H), non-singlet+ on q - nf H).
    Order by order this fixes
        A1_1 = gamma0 - gamma0'
      2 A2_2 = beta0' A1_1 + A1_1 gamma0 - gamma0' A1_1 + gamma0 d1_1        A2_1 = beta0' A1_0 + A1_0 gamma0 - gamma0' A1_0 + gamma1 - gamma1'
      3 A3_3 = 2 beta0' A2_2 + gamma0 d2_2 + A1_1 gamma0 d1_1 + A2_2 gamma0 - gamma0' A2_2
      2 A3_2 = 2 beta0' A2_1 + beta1' A1_1 + 2 gamma1 d1_1 + gamma0 d2_1 + A1_0 gamma0 d1_1 + A1_1 gamma1 + A2_1 gamma0 - gamma1' A1_1 - gamma0' A2_1
    for the gluon and light-quark columns (the tree has no heavy-input column beyond first order).  Both sides are evaluated at
    even moments with exact harmonic-sum values; the right-hand sides use the tree's anomalous dimensions, beta coefficients and the
    coupling's upward decoupling table (inverted here)."""
    Ls = sp.Symbol("L")
    L = dag.sym("L")
    fS = src.func(f"{OME}.unpolarized.space_like.A_singlet")
    US = f"{AD}.unpolarized.space_like"

    def num(x):
        e = sp.sympify(_sym(x, ft))
        e = e.subs({s_: _CONST[s_.name] for s_ in e.free_symbols if s_.name in _CONST})
        return sp.N(e, 30)

    def co(M, p):
        return M.applyfunc(lambda e: sp.Poly(e, Ls).coeff_monomial(Ls ** p) if e != 0 else sp.Integer(0))

    def gq(m2):      # the tree's singlet matrices are ordered (quark, gluon): to (gluon, quark)
        return sp.Matrix([[m2[1, 1], m2[1, 0]], [m2[0, 1], m2[0, 0]]])

    n = 0
    for nf in (3, 4, 5):
        P = sp.Matrix([[1, 0, 0], [0, 1, 1], [0, 1, -nf]])

        def emb(g):
            return sp.Matrix([[g[0, 0], g[0, 1], 0], [g[1, 0], g[1, 1], 0], [0, 0, 0]])

        def embp(g, ns):
            return P.inv() * sp.Matrix([[g[0, 0], g[0, 1], 0], [g[1, 0], g[1, 1], 0], [0, 0, ns]]) * P

        cup = pe.call("eko.couplings.compute_matching_coeffs_up", ["POLE", nf])
        c11, c22, c21 = num(cup[1, 1]), num(cup[2, 2]), num(cup[2, 1])
        d11, d22, d21 = -c11, 2 * c11 ** 2 - c22, -c21
        b0p, b1p = num(pe.call("eko.beta.beta_qcd", [(2, 0), nf + 1])), num(pe.call("eko.beta.beta_qcd", [(3, 0), nf + 1]))
        for N, msbar in ((4, False), (6, False), (8, False), (4, True), (6, True)):
            inst = f"nf={nf},N={N}" + (",MSbar masses" if msbar else "")
            try:
                A = pe.call(fS.qname, [(3, 0), N, nf, L, msbar])
                Am = [sp.Matrix(3, 3, lambda r, c, k=k: sp.expand(_sym(A[k, int(r), int(c)], ft))) for k in range(3)]
                gam = {}
                for m in (nf, nf + 1):
                    G = pe.call(f"{US}.gamma_singlet", [(2, 0), N, m, (0,) * 7, True])
                    ns = pe.call(f"{US}.gamma_ns", [(2, 0), 10101, N, m, (0,) * 7, True]).flat()
                    gam[m] = [gq(sp.Matrix(2, 2, lambda r, c, k=k: num(G[k, int(r), int(c)]))) for k in (0, 1)] + [num(ns[0]), num(ns[1])]
            except (PERaise, ValueError) as e:   # ValueError: a harmonic sum asked for at an integer moment with a parity flag that contradicts it
                chk.fail("higher-order-logs-follow-from-rg-invariance", fS.qname, f"singlet, {inst}: cannot be evaluated: {e}", where=fS.where, instance=inst)
                continue
            G0, G1 = emb(gam[nf][0]), emb(gam[nf][1])
            G0p, G1p = embp(gam[nf + 1][0], gam[nf + 1][2]), embp(gam[nf + 1][1], gam[nf + 1][3])
            A1_0, A1_1 = co(Am[0], 0), co(Am[0], 1)
            A2_1, A2_2 = co(Am[1], 1), co(Am[1], 2)
            A3_2, A3_3 = co(Am[2], 2), co(Am[2], 3)
            rules = [
                ("a_s^1 L^1", A1_1, G0 - G0p, (0, 1, 2)),
                ("a_s^2 L^2", 2 * A2_2, b0p * A1_1 + A1_1 * G0 - G0p * A1_1 + G0 * d11, (0, 1)),
                ("a_s^2 L^1", A2_1, b0p * A1_0 + A1_0 * G0 - G0p * A1_0 + G1 - G1p, (0, 1)),
                ("a_s^3 L^3", 3 * A3_3, 2 * b0p * A2_2 + G0 * d22 + A1_1 * G0 * d11 + A2_2 * G0 - G0p * A2_2, (0, 1)),
                ("a_s^3 L^2", 2 * A3_2, 2 * b0p * A2_1 + b1p * A1_1 + 2 * G1 * d11 + G0 * d21 + A1_0 * G0 * d11 + A1_1 * G1 + A2_1 * G0 - G1p * A1_1 - G0p * A2_1, (0, 1)),
            ]
            names = ("gluon", "light-quark", "heavy")
            for name, lhs, rhs, cols in rules:
                worst, where_ = 0.0, None
                try:
                    scale = max(1.0, max(abs(complex(sp.N(x))) for x in rhs))
                    for r in range(3):
                        for c in cols:
                            dv = abs(complex(sp.N(lhs[r, c] - rhs[r, c]))) / scale
                            if dv > worst:
                                worst, where_ = dv, (r, c)
                except (TypeError, ValueError) as e:
                    n += 1
                    left = sorted(str(a_) for x in list(lhs) + list(rhs) for a_ in sp.sympify(x).free_symbols)[:4]
                    chk.fail("higher-order-logs-follow-from-rg-invariance", fS.qname,
                             f"singlet, {inst}, {name} coefficient: no numerical value at the integer moment ({e}); unevaluated: {left} - a harmonic "
                             f"sum is requested without the parity flag of the element", where=fS.where, instance=f"singlet,{inst},{name}")
                    continue
                n += 1
                chk.decide(worst <= 1e-10, "higher-order-logs-follow-from-rg-invariance", fS.qname,
                           f"singlet, {inst}, {name} coefficient: entry {names[where_[0]] if where_ else ''}<-{names[where_[1]] if where_ else ''} "
                           f"deviates by {worst:.3e} (relative to the largest entry) from what renormalisation-group invariance requires with the "
                           f"tree's anomalous dimensions, beta coefficients and coupling decoupling", where=fS.where, instance=f"singlet,{inst},{name}",
                           detail=f"max deviation {worst:.1e}", how="exact special values at even moments + matrix RG recursion")
    return n
