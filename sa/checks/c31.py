"""C31 - flavour/evolution basis rotations and sector projectors are exact and complete (exhaustive, exact)."""
from __future__ import annotations

from fractions import Fraction

from .. import dag
from ..arr import Arr
from ..pe import PE, PERaise
from ..src import load

LEVEL = "other"
META = {
    "text": "The literal rotation tables of eko/basis_rotation.py are extracted and decided exactly: rows mutually orthogonal, "
            "determinant non-zero, label/PID tables of equal length and consistent, every member named by the sector maps is a "
            "basis label, and the full label sets equal the keys of the maps. ad_projector is partially evaluated for EVERY sector "
            "of the basis that matches the qed flag, every nf 3-6, QCD and QED; each projector P is decided (exact rationals) to "
            "send the sector's source vector onto its target vector and to annihilate every other active evolution-basis vector "
            "(restricted to the active flavours), the diagonal projectors to sum to the identity on the active parton space, and "
            "ad_projectors(nf, qed) to return one projector per sector of the matching basis. Refusals (KeyError/ValueError/"
            "division by zero) are violations: the projectors must be available for every sector.",
    "note": "Exhaustive over the finite configuration space; exact rational arithmetic on the literal tables. The construction "
            "out x in/(out.out) is exact only if the restricted basis vectors are orthogonal, which is decided separately "
            "(obligation active-basis-orthogonal) so that one cause is reported once.",
    "technique": "partial evaluation over the finite configuration space + exact linear algebra on extracted literal tables",
    "engine": "sa",
}

BR = "eko.basis_rotation"


def _vec(a: Arr, i):
    return [dag.as_const(x) for x in a[i].flat()]


def _dot(u, v):
    return sum(x * y for x, y in zip(u, v))


def _restrict(v, nf, qed):
    v = list(v)
    n = len(v)
    for i in range(1, 1 + (6 - nf)):
        v[i] = Fraction(0)
    for i in range(n - (6 - nf), n):
        v[i] = Fraction(0)
    if not qed:
        v[0] = Fraction(0)
    return v


def _det(m):
    m = [list(r) for r in m]
    n = len(m)
    d = Fraction(1)
    for c in range(n):
        p = next((r for r in range(c, n) if m[r][c] != 0), None)
        if p is None:
            return Fraction(0)
        if p != c:
            m[c], m[p] = m[p], m[c]
            d = -d
        d *= m[c][c]
        for r in range(c + 1, n):
            f = m[r][c] / m[c][c]
            for k in range(c, n):
                m[r][k] -= f * m[c][k]
    return d


def active_labels(nf, qed):
    if not qed:
        labs = ["S", "g", "V"]
        for k in range(2, nf + 1):
            labs += [f"V{k * k - 1}", f"T{k * k - 1}"]
        return labs
    labs = ["g", "ph", "S", "Sdelta", "V", "Vdelta", "Td3", "Vd3"]
    if nf >= 4:
        labs += ["Tu3", "Vu3"]
    if nf >= 5:
        labs += ["Td8", "Vd8"]
    if nf >= 6:
        labs += ["Tu8", "Vu8"]
    return labs


def run(chk):
    src = load()
    pe = PE(src)
    chk.rule_text = "e_source.P = e_target ; e_other.P = 0 ; sum of diagonal P = 1 on the active space ; tables orthogonal/invertible"
    G = lambda name: pe.get_global(BR, name)
    tables = {False: (G("rotate_flavor_to_evolution"), G("evol_basis"), G("evol_basis_pids"), G("map_ad_to_evolution"), G("full_labels")),
              True: (G("rotate_flavor_to_unified_evolution"), G("unified_evol_basis"), G("unified_evol_basis_pids"),
                     G("map_ad_to_unified_evolution"), G("full_unified_labels"))}
    fproj = src.func(f"{BR}.ad_projector")
    fprojs = src.func(f"{BR}.ad_projectors")
    where_tab = "src/eko/basis_rotation.py"
    # ---------------------------------------------------------------- tables
    for qed, (rot, basis, pids, admap, full) in tables.items():
        tag = "unified" if qed else "qcd"
        chk.need(isinstance(rot, Arr) and rot.shape == (14, 14), f"{tag} rotation table is not 14x14")
        rows = [_vec(rot, i) for i in range(14)]
        bad = [(basis[i], basis[j]) for i in range(14) for j in range(i + 1, 14) if _dot(rows[i], rows[j]) != 0]
        chk.decide(not bad, "rotation-rows-orthogonal", f"{BR}.rotate_flavor_to_{'unified_' if qed else ''}evolution",
                   f"rows not mutually orthogonal: {bad[:4]}", where=where_tab, detail="14 rows orthogonal", how="exact")
        chk.decide(_det(rows) != 0, "rotation-invertible", f"{BR}.rotate_flavor_to_{'unified_' if qed else ''}evolution",
                   "rotation matrix is singular", where=where_tab, how="exact")
        chk.decide(len(basis) == 14 and len(pids) == 14 and len(set(basis)) == 14 and len(set(pids)) == 14,
                   "label-pid-tables-consistent", f"{BR}.{tag}", f"label/PID tables are not 14 distinct entries each", where=where_tab)
        members = [m for v in admap.values() for m in v]
        okm = all(all(p in basis for p in m.split(".")) for m in members)
        chk.decide(okm, "sector-members-in-basis", f"{BR}.map_ad_to_{'unified_' if qed else ''}evolution",
                   f"a sector member names a label outside the basis: {[m for m in members if not all(p in basis for p in m.split('.'))][:3]}",
                   where=where_tab)
        chk.decide(set(full) == set(admap.keys()) and len(full) == len(set(full)), "full-labels-equal-map-keys",
                   f"{BR}.full_{'unified_' if qed else ''}labels", "the full label set differs from the keys of the sector map",
                   where=where_tab)
    # flavour basis tables
    fpids, fnames = G("flavor_basis_pids"), G("flavor_basis_names")
    chk.decide(len(fpids) == 14 and len(fnames) == 14 and fpids[0] == 22 and fpids[7] == 21
               and [fpids[7 + k] for k in range(1, 7)] == [1, 2, 3, 4, 5, 6] and [fpids[7 - k] for k in range(1, 7)] == [-1, -2, -3, -4, -5, -6],
               "label-pid-tables-consistent", f"{BR}.flavor_basis_pids", "flavour basis PID table is not (22, -6..-1, 21, 1..6)", where=where_tab)

    # ---------------------------------------------------------------- projectors
    n_proj = 0
    for qed, (rot, basis, pids, admap, full) in tables.items():
        for nf in (3, 4, 5, 6):
            act = active_labels(nf, qed)
            vecs = {l: _restrict(_vec(rot, basis.index(l)), nf, qed) for l in act}
            # orthogonality of the active restricted basis (cause reported once)
            nonorth = set()
            for i, a in enumerate(act):
                for b in act[i + 1:]:
                    if _dot(vecs[a], vecs[b]) != 0:
                        nonorth.add(frozenset((a, b)))
                        chk.fail("active-basis-orthogonal", fproj.qname,
                                 f"qed={qed}, nf={nf}: the active basis vectors {a} and {b} restricted to {nf} flavours are not orthogonal "
                                 f"({a}.{b} = {_dot(vecs[a], vecs[b])}); the construction out x in/(out.out) then does not annihilate {b} "
                                 f"in the {a} sectors (and vice versa) and the diagonal projectors do not sum to the identity",
                                 where=fproj.where, instance=f"qed={qed},nf={nf},{a}~{b}")
            if not nonorth:
                chk.ok("active-basis-orthogonal", f"{fproj.qname}|qed={qed},nf={nf}", f"{len(act)} active vectors", how="exact")
            total = [[Fraction(0)] * 14 for _ in range(14)]
            diag_ok = True
            for lab in full:
                inst = f"qed={qed},nf={nf},sector={lab}"
                n_proj += 1
                try:
                    P = pe.call(fproj.qname, [lab, nf, qed])
                except PERaise as e:
                    chk.fail("projector-available-for-every-sector", fproj.qname,
                             f"ad_projector({lab}, nf={nf}, qed={qed}) raises {e.etype}: {e.message}", where=fproj.where, instance=inst)
                    diag_ok = False
                    continue
                except ZeroDivisionError:
                    chk.fail("projector-available-for-every-sector", fproj.qname,
                             f"ad_projector({lab}, nf={nf}, qed={qed}) divides by zero (the source vector is entirely masked)",
                             where=fproj.where, instance=inst)
                    diag_ok = False
                    continue
                Pm = [[dag.as_const(P[i, j]) for j in range(14)] for i in range(14)]
                members = [m for m in admap[lab] if all(p in act for p in m.split("."))]
                # which members should be active at this nf: those whose labels are active
                expect_members = members
                pairs = [tuple(m.split(".")) for m in expect_members]
                outs = {o: i for o, i in pairs}
                bad = None
                for l in act:
                    img = [sum(vecs[l][r] * Pm[r][c] for r in range(14)) for c in range(14)]
                    want = vecs[outs[l]] if l in outs else [Fraction(0)] * 14
                    if img != want:
                        # consequence of a reported non-orthogonality?
                        if any(frozenset((l, o)) in nonorth for o in outs):
                            continue
                        bad = (l, outs.get(l))
                        break
                chk.decide(bad is None, "projector-maps-source-to-target", fproj.qname,
                           f"{inst}: the projector sends {bad[0] if bad else ''} to something else than "
                           f"{'its target ' + str(bad[1]) if bad and bad[1] else 'zero'}", where=fproj.where, instance=inst,
                           detail=f"{len(pairs)} members", how="exact")
                if all(o == i for o, i in pairs):
                    for r in range(14):
                        for c in range(14):
                            total[r][c] += Pm[r][c]
            # completeness of the diagonal projectors
            if diag_ok and not nonorth:
                ident = [[Fraction(1) if r == c and any(vecs[l][r] != 0 for l in act) else Fraction(0) for c in range(14)]
                         for r in range(14)]
                chk.decide(total == ident, "diagonal-projectors-sum-to-identity", fproj.qname,
                           f"qed={qed}, nf={nf}: the diagonal sector projectors do not sum to the identity on the active parton space",
                           where=fproj.where, instance=f"qed={qed},nf={nf}", how="exact")
            # ad_projectors collects one projector per sector of the matching basis
            try:
                Ps = pe.call(fprojs.qname, [nf, qed])
                okn = isinstance(Ps, Arr) and Ps.shape == (len(full), 14, 14)
                chk.decide(okn, "projectors-collected-for-matching-basis", fprojs.qname,
                           f"ad_projectors(nf={nf}, qed={qed}) returns shape {getattr(Ps, 'shape', None)}, expected one projector for each "
                           f"of the {len(full)} sectors of the {'unified' if qed else 'QCD'} basis", where=fprojs.where,
                           instance=f"qed={qed},nf={nf}")
            except (PERaise, ZeroDivisionError) as e:
                chk.fail("projectors-collected-for-matching-basis", fprojs.qname,
                         f"ad_projectors(nf={nf}, qed={qed}) raises {e}", where=fprojs.where, instance=f"qed={qed},nf={nf}")
    chk.floor("projector instances", n_proj, 4 * 7 + 4 * 24)
    chk.note(projectors=n_proj, files=["src/eko/basis_rotation.py"])
    chk.explanation = "Exhaustive exact evaluation of the sector projectors over nf 3-6, QCD/QED, all sectors; literal tables checked."
