"""C19 - flavour-number paths through the matching scales are well formed (exhaustive over orderings)."""
from __future__ import annotations

import itertools
from fractions import Fraction

from .. import dag
from ..pe import PE, Obj, PERaise
from ..src import load

LEVEL = "proof"
META = {
    "text": "Atlas.path, Atlas.matched_path, is_downward_path, nf_default and Atlas.normalize touch scales only through "
            "comparisons, slicing and np.digitize, so their behaviour is determined by the ORDERING of the initial scale, the "
            "target scale and the three matching scales. The check partially evaluates the source for every ordering (each scale "
            "below / on / between / above every wall, including coincident walls and FFNS-style 0/inf walls), every initial nf "
            "3-6 and every target nf 3-6 or unspecified, and decides on each resulting path: start/end point, contiguity, unit "
            "steps in a single direction, each step exactly on the wall of the quark being (de)activated, and one Matching per "
            "step naming the heavier quark and flagged inverse exactly for downward (nf-decreasing, or mu-decreasing for a "
            "single segment) paths.",
    "note": "Exhaustive over orderings for sorted wall configurations (strict, two coincident, all coincident, FFNS 0/inf); "
            "deliberately unsorted walls are out of scope. Exact rational scales, no floating point.",
    "technique": "partial evaluation of the path construction over the finite set of orderings (exhaustive) with a reference oracle written from the property",
    "engine": "sa",
}

MT = "eko.matchings"


def _expected(walls, origin, target_nf, target_mu):
    """reference path from the property statement: list of (origin, target, nf)"""
    mu0, nf0 = origin
    full = [0] + list(walls) + [float("inf")]
    if target_nf is None:
        # default flow: 3 + number of matching scales <= mu
        target_nf = 3 + sum(1 for w in walls if target_mu >= w)
    segs = []
    step = 1 if target_nf >= nf0 else -1
    cur = mu0
    nf = nf0
    while nf != target_nf:
        # going up from nf to nf+1 crosses the wall of quark nf+1 (index nf+1-3 in full), down from nf crosses quark nf
        wall = full[nf + 1 - 3] if step == 1 else full[nf - 3]
        segs.append((cur, wall, nf))
        cur = wall
        nf += step
    segs.append((cur, target_mu, nf))
    return segs, target_nf


def run(chk):
    src = load()
    pe = PE(src)
    chk.rule_text = "path(origin -> target) == reference path, for every ordering of scales and walls"
    wall_sets = [[10, 20, 30], [10, 10, 30], [10, 20, 20], [20, 20, 20], [0, 0, float("inf")], [0, 20, float("inf")],
                 [0, 0, 0], [float("inf")] * 3,
                 # matching scales that are NOT in quark order (a large charm ratio, a small bottom ratio): every step must still
                 # sit on the scale of the quark it (de)activates
                 [30, 20, 40], [20, 40, 10]]
    if chk.tier == "quick":
        probes = lambda ws: sorted({Fraction(x) for w in ws if w not in (0, float("inf")) for x in (w, w - 5, w + 5)} | {Fraction(7)})
    else:
        probes = lambda ws: sorted({Fraction(x) for w in ws if w not in (0, float("inf")) for x in (w, w - 5, w + 5, w - 1, w + 1)} | {Fraction(7), Fraction(1000)})
    atlas_cls = src.cls(f"{MT}.Atlas")
    fpath = src.func(f"{MT}.Atlas.path")
    fmatched = src.func(f"{MT}.Atlas.matched_path")
    n_cases = 0
    n_bad = 0
    seen_shapes = set()
    for walls in wall_sets:
        pts = probes(walls)
        ordered = all(a <= b for a, b in zip(walls, walls[1:]))
        for mu0, nf0, muf, nff in itertools.product(pts, (3, 4, 5, 6), pts, (3, 4, 5, 6, None)):
            if nff is None and not ordered:
                continue  # the default flavour number needs monotonic matching scales; explicit flavour numbers do not
            n_cases += 1
            inst = f"walls={walls},origin=({mu0},{nf0}),target=({muf},{nff})"
            try:
                atlas = pe.instantiate(atlas_cls.qname, [list(walls), (mu0, nf0)])
                path = pe.apply(pe.getattr(atlas, "path"), [(muf, nff)], {})
                mpath = pe.apply(pe.getattr(atlas, "matched_path"), [(muf, nff)], {})
            except PERaise as e:
                chk.fail("path-construction-raises", fpath.qname, f"{e} ({inst})", where=fpath.where, instance=inst)
                n_bad += 1
                continue
            want, want_nff = _expected(walls, (mu0, nf0), nff, muf)
            got = [(pe.getattr(s, "origin"), pe.getattr(s, "target"), pe.getattr(s, "nf")) for s in path]
            seen_shapes.add((len(got), got[-1][2] - got[0][2]))

            def eq(a, b):
                return a == b or (isinstance(a, float) and isinstance(b, float) and a == b)

            ok = len(got) == len(want) and all(eq(g[0], w[0]) and eq(g[1], w[1]) and g[2] == w[2] for g, w in zip(got, want))
            if not ok:
                n_bad += 1
                if n_bad <= 25:
                    chk.fail("path-well-formed", fpath.qname,
                             f"path {[(str(a), str(b), c) for a, b, c in got]} differs from the required "
                             f"{[(str(a), str(b), c) for a, b, c in want]} ({inst})", where=fpath.where, instance=inst)
                continue
            # matched path: segments interleaved with one matching per step
            segs = [x for x in mpath if x.cls.node.name == "Segment"]
            mats = [x for x in mpath if x.cls.node.name == "Matching"]
            downward = (want_nff < nf0) if len(want) > 1 else (mu0 > muf)
            okm = len(segs) == len(want) and len(mats) == len(want) - 1 and len(mpath) == 2 * len(want) - 1
            if okm:
                for i, m in enumerate(mats):
                    hq = max(want[i][2], want[i + 1][2])
                    okm = okm and mpath[2 * i + 1] is m and eq(pe.getattr(m, "scale"), want[i][1]) \
                        and pe.getattr(m, "hq") == hq and pe.getattr(m, "inverse") is (want_nff < nf0)
            d = pe.call(f"{MT}.is_downward_path", [path])
            okm = okm and (d is downward)
            if not okm:
                n_bad += 1
                if n_bad <= 25:
                    desc = [(x.cls.node.name, {k: str(v) for k, v in x.attrs.items()}) for x in mpath]
                    chk.fail("matched-path-well-formed", fmatched.qname,
                             f"matched path {desc} does not insert one Matching(scale=wall, hq=heavier quark, inverse={want_nff < nf0}) "
                             f"per step / is_downward_path={d} expected {downward} ({inst})", where=fmatched.where, instance=inst)
    if n_bad == 0:
        chk.ok("path-well-formed", fpath.qname, f"{n_cases} (walls, origin, target) orderings", how="exhaustive PE")
        chk.ok("matched-path-well-formed", fmatched.qname, f"{n_cases} orderings", how="exhaustive PE")
    # nf_default = 3 + number of walls passed (default flow), incl. being exactly on a wall
    fnd = src.func(f"{MT}.nf_default")
    bad_nd = 0
    for walls in wall_sets[:4]:
        atlas = pe.instantiate(atlas_cls.qname, [list(walls), (Fraction(1), 3)])
        for mu in probes(walls):
            got = pe.call(fnd.qname, [mu, atlas])
            want = 3 + sum(1 for w in walls if mu >= w)
            if got != want:
                bad_nd += 1
                chk.fail("default-nf", fnd.qname, f"nf_default({mu}) = {got}, expected {want} for walls {walls}", where=fnd.where,
                         instance=f"walls={walls},mu={mu}")
    if not bad_nd:
        chk.ok("default-nf", fnd.qname, "3 + #walls passed", how="exhaustive PE")
    chk.floor("orderings enumerated", n_cases, 2000)
    chk.floor("distinct path shapes", len(seen_shapes), 7)
    chk.note(cases=n_cases, wall_sets=[[str(w) for w in ws] for ws in wall_sets], shapes=sorted(seen_shapes))
    chk.explanation = "Finite enumeration of all orderings of scales vs matching scales; exact comparison with a reference path."
