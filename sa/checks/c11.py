"""C11 - all solution, scale-variation and matching prescriptions conserve sum rules."""
from __future__ import annotations

from .. import dag, kern
from ..arr import Arr
from ..pe import PE, PERaise

LEVEL = "proof"
META = {
    "text": "Anomalous dimensions / matching elements obeying a sum rule are modelled as symbolic matrices whose columns sum to "
            "zero (the row vector v=(1,..,1) is a left null vector). With such inputs the formula of every construction is "
            "extracted and v.K = v is proved as an identity in all remaining symbols: every singlet solution method at orders "
            "1-4 (LO, decompose exact/expanded, truncated, ordered-truncated, perturbative exact/expanded, iterate with 2 steps), "
            "the expanded scale-variation kernels (2x2 and 4x4, QED variants), the exponentiated shifts (each shifted gamma_k "
            "still satisfies v.gamma_k = 0), and the forward, expanded-backward and exact-backward matching operators (3x3). For "
            "the QED iterated kernels, whose matrix exponential is numerical, the exponent of every step is proved to satisfy "
            "v.ln = 0 and the result to be the ordered product of exponentials of those exponents. Quark-number conservation of "
            "scalar kernels (gamma = 0 => kernel = 1) is checked for every non-singlet method."
            " The kernel the integrand hands to the integration in the expanded scheme is the MATRIX product of the scale-variation factor and the evolution kernel (quad_ker_qcd / quad_ker_qed evaluated with stand-in factors for the QCD singlet, QED singlet and QED valence sectors).",
    "note": "Exact algebra (rounding is not decided). For np.linalg.eig-based exponentials the conclusion v.exp(ln)=v is the "
            "mathematical consequence of the proven v.ln=0. PIT in F_p with modular square roots.",
    "technique": "partial evaluation with constrained symbolic matrices + polynomial identity testing (left-null-vector invariance)",
    "engine": "sa",
}


def _rowsum_minus_one(K: Arr):
    dim = K.shape[0]
    return [dag.sub(dag.addn([K[i, j] for i in range(dim)]), 1) for j in range(dim)]


def _colsums(K: Arr):
    dim = K.shape[0]
    return [dag.addn([K[i, j] for i in range(dim)]) for j in range(K.shape[1])]


QKM = "eko.evolution_operator.quad_ker"


def run(chk):
    src, pe, M = kern.setup(chk)
    log = []
    kern.install_expm_model(pe, log)
    chk.trusted += ["random interpretation in F_p"]
    chk.rule_text = "v.gamma_k = 0 for all k  =>  v.K = v"
    a1, a0, nf, L, a_s, a_em = (dag.sym(x) for x in ("a1", "a0", "nf", "L", "a_s", "a_em"))
    n_inst = 0
    sd = src.func(f"{kern.SG}.dispatcher")
    # ---- singlet solution methods ---------------------------------------------------------------
    for n in range(1, 5):
        G = kern.sg_gamma(n, conserve=True)
        for mname, mem in M.items():
            inst = f"order={n},method={mname}"
            n_inst += 1
            K = pe.call(sd.qname, [(n, 0), mem, G, a1, a0, nf, 2, (n + 1, 0)])
            ok, info = dag.is_zero_fp(_rowsum_minus_one(K), chk.seed, 2)
            chk.decide(ok, "kernel-conserves-sum-rule", sd.qname,
                       f"singlet kernel does not conserve the sum rule: (1,1).K != (1,1) although (1,1).gamma_k = 0 ({inst})",
                       where=sd.where, instance=inst, data={"witness": info}, how="PE + PIT F_p")
    # ---- non-singlet: number conservation -----------------------------------------------------------
    nd = src.func(f"{kern.NS}.dispatcher")
    for n in range(1, 5):
        g = Arr.from_nested([0] * n)
        for mname, mem in M.items():
            n_inst += 1
            E = pe.call(nd.qname, [(n, 0), mem, g, a1, a0, nf])
            ok, info = dag.is_zero_fp([dag.sub(E, 1)], chk.seed, 2)
            chk.decide(ok, "kernel-conserves-sum-rule", nd.qname, f"non-singlet kernel with vanishing gamma is not 1 (order={n},{mname})",
                       where=nd.where, instance=f"order={n},method={mname}", data={"witness": info}, how="PE + PIT F_p")
    # ---- QED iterated kernels: exponent conserves, product ordered -------------------------------------
    for qn, dim in ((f"{kern.QSG}.dispatcher", 4), (f"{kern.QVL}.dispatcher", 2)):
        f = src.func(qn)
        for n, m in ((1, 1), (2, 1), (3, 2), (4, 2)):
            its = 2
            mats = [[kern.sg_gamma(1, prefix=f"Q{i}_{j}_", conserve=True, dim=dim)[0].tolist() for j in range(m + 1)]
                    for i in range(n + 1)]
            G = Arr.from_nested(mats)
            as_list = Arr.from_nested([dag.sym(f"as{i}") for i in range(its + 1)])
            a_half = Arr.from_nested([[dag.sym(f"ah{i}"), dag.sym(f"aemh{i}")] for i in range(its)])
            del log[:]
            K = pe.call(qn, [(n, m), M["ITERATE_EXACT"], G, as_list, a_half, 5, its, (10, 0)])
            inst = f"order=({n},{m})"
            n_inst += 1
            chk.need(len(log) == its, f"expected {its} matrix exponentials, saw {len(log)} ({qn} {inst})")
            sums = []
            for ln in log:
                sums.extend(_colsums(ln))
            ok, info = dag.is_zero_fp(sums, chk.seed, 2)
            chk.decide(ok, "exponent-conserves-sum-rule", qn,
                       f"the exponent of an iteration step is not a combination of the conserving anomalous dimensions only: "
                       f"(1,..,1).ln != 0 ({inst})", where=f.where, instance=inst, data={"witness": info}, how="PE + PIT F_p")
            # conservation needs the kernel to be a product of the (conserving) step exponentials - in whichever order: the ORDER
            # is C12's / C14's subject, a reversed product still conserves
            ok, info = False, {}
            for order in (log, list(reversed(log))):
                want = kern.eye(dim)
                for ln in order:
                    want = kern.mat_mul(kern.expm_ref(ln), want)
                ok, info = dag.is_zero_fp(kern.mat_sub(K, want).flat(), chk.seed, 2)
                if ok:
                    break
            chk.decide(ok, "kernel-is-a-product-of-the-step-exponentials", qn,
                       f"QED iterated kernel is not a product of its step exponentials, each of which conserves ({inst})", where=f.where, instance=inst,
                       data={"witness": info}, how="PE + PIT F_p")
    # ---- scale variations -------------------------------------------------------------------------
    fsv = src.func("eko.scale_variations.expanded.singlet_variation")
    fgv = src.func("eko.scale_variations.exponentiated.gamma_variation")
    for n in range(1, 5):
        for dim in (2, 4):
            G = kern.sg_gamma(n, conserve=True, dim=dim)
            n_inst += 1
            K = pe.call(fsv.qname, [G, a_s, (n, 0), nf, L, dim])
            ok, info = dag.is_zero_fp(_rowsum_minus_one(K), chk.seed, 2)
            chk.decide(ok, "sv-kernel-conserves-sum-rule", fsv.qname, f"expanded scale-variation kernel breaks the sum rule (order={n},dim={dim})",
                       where=fsv.where, instance=f"order={n},dim={dim}", data={"witness": info}, how="PE + PIT F_p")
            G2 = kern.sg_gamma(n, conserve=True, dim=dim)
            out = pe.call(fgv.qname, [G2, (n, 0), nf, L])
            sums = []
            for k in range(n):
                sums.extend(_colsums(out[k]))
            ok, info = dag.is_zero_fp(sums, chk.seed, 2)
            chk.decide(ok, "sv-shift-conserves-sum-rule", fgv.qname, f"exponentiated shift breaks (1,..,1).gamma_k = 0 (order={n},dim={dim})",
                       where=fgv.where, instance=f"order={n},dim={dim}", data={"witness": info}, how="PE + PIT F_p")
    for fname, dim in (("singlet_variation_qed", 4), ("valence_variation_qed", 2)):
        f = src.func(f"eko.scale_variations.expanded.{fname}")
        for n, m in ((2, 1), (3, 2), (4, 2)):
            for running in (True, False):
                mats = [[kern.sg_gamma(1, prefix=f"V{i}_{j}_", conserve=True, dim=dim)[0].tolist() for j in range(m + 1)]
                        for i in range(n + 1)]
                K = pe.call(f.qname, [Arr.from_nested(mats), a_s, a_em, running, (n, m), 5, L])
                n_inst += 1
                ok, info = dag.is_zero_fp(_rowsum_minus_one(K), chk.seed, 2)
                chk.decide(ok, "sv-kernel-conserves-sum-rule", f.qname, f"{fname} breaks the sum rule (order=({n},{m}),running={running})",
                           where=f.where, instance=f"order=({n},{m}),running={running}", data={"witness": info}, how="PE + PIT F_p")
    fq = src.func("eko.scale_variations.exponentiated.gamma_variation_qed")
    for n, m in ((2, 1), (3, 2), (4, 2)):
        for running in (True, False):
            mats = [[kern.sg_gamma(1, prefix=f"W{i}_{j}_", conserve=True, dim=4)[0].tolist() for j in range(m + 1)]
                    for i in range(n + 1)]
            out = pe.call(fq.qname, [Arr.from_nested(mats), (n, m), 5, 3, L, running])
            n_inst += 1
            sums = []
            if isinstance(out, Arr):
                for i in range(n + 1):
                    for j in range(m + 1):
                        sums.extend(_colsums(out[i, j]))
                ok, info = dag.is_zero_fp(sums, chk.seed, 2)
            else:
                ok, info = False, {"error": f"returned {out!r}"}
            chk.decide(ok, "sv-shift-conserves-sum-rule", fq.qname, f"gamma_variation_qed breaks the sum rule (order=({n},{m}),running={running})",
                       where=fq.where, instance=f"order=({n},{m}),running={running}", data={"witness": info}, how="PE + PIT F_p")
    # ---- how the integrand puts the two conserving factors together (expanded scheme) ------------------------------------------------
    # each factor conserves on its own (decided above); their MATRIX product does too, an element-wise product does not: the kernel the
    # integrand hands on must be the matrix product of the scale-variation factor and the evolution kernel (either order conserves)
    from .. import qk

    n_asm = 0
    for label, qed_, dim, svq, kq, modes in (
            ("QCD singlet", False, 2, "eko.scale_variations.expanded.singlet_variation", "eko.kernels.singlet.dispatcher", (100, 21)),
            ("QED singlet", True, 4, "eko.scale_variations.expanded.singlet_variation_qed", "eko.kernels.singlet_qed.dispatcher", (21, 22, 100, 101)),
            ("QED valence", True, 2, "eko.scale_variations.expanded.valence_variation_qed", "eko.kernels.valence_qed.dispatcher", (10200, 10204))):
        _src, peq = qk.make_pe()
        Mq, SVq = qk.enums(peq)
        SVm = Arr.from_nested([[dag.sym(f"sv{r}{c}") for c in range(dim)] for r in range(dim)])
        Km = Arr.from_nested([[dag.sym(f"k{r}{c}") for c in range(dim)] for r in range(dim)])
        peq.overrides[svq] = lambda p_, a, k, SVm=SVm: SVm.copy()
        peq.overrides[kq] = lambda p_, a, k, Km=Km: Km.copy()
        got = {}
        try:
            for m0 in modes:
                for m1 in modes:
                    if qed_:
                        got[(m0, m1)] = qk.qed(peq, (2, 1), m0, m1, Mq["ITERATE_EXACT"], nf=4, Lsv=L, sv_mode=SVq["expanded"], is_threshold=False)
                    else:
                        got[(m0, m1)] = qk.qcd(peq, (2, 0), m0, m1, Mq["ITERATE_EXACT"], nf=4, Lsv=L, sv_mode=SVq["expanded"], is_threshold=False)
        except Exception as e:  # noqa: BLE001 - reported as a violation with the reason
            chk.fail("assembled-kernel-is-a-matrix-product", f"{QKM}.quad_ker_{'qed' if qed_ else 'qcd'}", f"{label}: the integrand kernel cannot be "
                     f"extracted with stand-in factors: {type(e).__name__} {e}", instance=label)
            continue
        n_asm += 1
        n_inst += 1
        # index of a mode in the sector's basis: the order the repository's own selection uses (g, photon, S, Sdelta / S, g / V, Vdelta)
        order_ = {"QCD singlet": (100, 21), "QED singlet": (21, 22, 100, 101), "QED valence": (10200, 10204)}[label]
        ok = False
        for first, second in ((SVm, Km), (Km, SVm)):
            prod = kern.mat_mul(first, second)
            diffs = [dag.sub(dag.tonode(got[(m0, m1)]), dag.tonode(prod[order_.index(m0), order_.index(m1)])) for m0 in modes for m1 in modes]
            ok, info = dag.is_zero_fp(diffs, chk.seed, 2)
            if ok:
                break
        fqk = src.func(f"{QKM}.quad_ker_{'qed' if qed_ else 'qcd'}")
        chk.decide(ok, "assembled-kernel-is-a-matrix-product", fqk.qname,
                   f"{label}, expanded scale variation: the kernel handed to the integration is not the matrix product of the scale-variation "
                   f"factor and the evolution kernel (e.g. an element-wise product): two factors that each conserve the sum rules then give a "
                   f"kernel that does not", where=fqk.where, instance=label, data={"witness": info}, how="PE with stand-in factors + PIT F_p")
    chk.floor("assembled kernels", n_asm, 3)
    # ---- matching operators -----------------------------------------------------------------------
    QK = QKM
    MM = pe.enum_members(pe.get_global(QK, "MatchingMethods").cls)
    fb = src.func(f"{QK}.build_ome")
    for n in range(0, 4):
        A = kern.sg_gamma(3, prefix="A", conserve=True, dim=3)
        for mname, mem in MM.items():
            n_inst += 1
            K = pe.call(fb.qname, [A, (n, 0), a_s, mem])
            ok, info = dag.is_zero_fp(_rowsum_minus_one(K), chk.seed, 2)
            chk.decide(ok, "matching-conserves-sum-rule", fb.qname, f"{mname} matching operator breaks the sum rule (matching order {n})",
                       where=fb.where, instance=f"order={n},{mname}", data={"witness": info}, how="PE + PIT F_p")
    chk.floor("constructions checked", n_inst, 32 + 32 + 8 + 8 + 12 + 6 + 12)
    chk.note(instances=n_inst, files=["src/eko/kernels/singlet.py", "src/eko/kernels/singlet_qed.py", "src/eko/kernels/valence_qed.py",
                                      "src/eko/scale_variations/expanded.py", "src/eko/scale_variations/exponentiated.py",
                                      "src/eko/evolution_operator/quad_ker.py"])
    chk.explanation = "Left-null-vector invariance of every kernel construction for symbolic conserving inputs."
