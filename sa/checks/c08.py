"""C08 - approximate solution methods agree with the exact one to the working order (proof, formula level)."""
from __future__ import annotations

from .. import dag, kern
from ..arr import Arr
from ..series import valuation_at_least

LEVEL = "proof"
META = {
    "text": "For every order n=2..4 and every approximate method (non-singlet: expanded, truncated, ordered-truncated; singlet: "
            "truncated, ordered-truncated, perturbative-exact/expanded with 1-2 iterations and several expansion orders) the "
            "kernel formula K(a1,a0) is extracted with symbolic (non-commuting 2x2 for the singlet) anomalous dimensions and "
            "proved to satisfy K(a0,a0)=1 and (dK/da1) K^-1 - gamma(a1)/beta(a1) = O(lam^(n-1)) under a_i -> lam a_i, which "
            "implies K = K_exact (1 + O(a^n)) for the path-ordered exact solution. Python reference semantics of arrays are "
            "kept, so aliasing between intermediate arrays is part of the extracted formula."
            " Two-step instances of the perturbative methods are part of the quick tier (the order of the step product).",
    "note": "The implication uses K(a0,a0)=1, analyticity in the joint scaling and boundedness of K_exact^-1, K at fixed a1/a0. "
            "Series coefficients are computed exactly in F_p at random values of all other symbols (error < 1e-30). The "
            "decompose methods are held to this only in the commuting limit (C09). Measured scaling on floats is not decided.",
    "technique": "partial evaluation to formulas + DAG differentiation + truncated Laurent series over F_p (valuation test)",
    "engine": "sa",
}


def run(chk):
    src, pe, M = kern.setup(chk)
    chk.assumptions.append("np.real(delta/Delta) == delta/Delta; principal branches")
    chk.trusted += ["sa/literature.py beta table", "sa/series.py Laurent series over F_p"]
    chk.rule_text = "K(a0,a0)=1 and valuation_lam[(dK/da1) K^-1 - gamma(a1)/beta(a1)] >= n-1"
    k = 2 if chk.tier == "quick" else 4
    a1, a0, nf = dag.sym("a1"), dag.sym("a0"), dag.sym("nf")
    scal = {"a1": 1, "a0": 1}
    n_inst = 0

    # ------------------------------------------------------------------ non-singlet
    disp = src.func(f"{kern.NS}.dispatcher")
    for n in (2, 3, 4):
        g = kern.ns_gamma(n)
        betas = kern.beta_lit(n)
        ref = kern.gamma_over_beta_scalar([g[i] for i in range(n)], betas, a1)
        for mname in ("ITERATE_EXPANDED", "DECOMPOSE_EXPANDED", "PERTURBATIVE_EXPANDED", "TRUNCATED", "ORDERED_TRUNCATED"):
            inst = f"order={n},method={mname}"
            n_inst += 1
            E = pe.call(disp.qname, [(n, 0), M[mname], g, a1, a0, nf])
            E0 = dag.substitute(dag.tonode(E), {"a1": a0})
            ok0, info0 = dag.is_zero_fp([dag.sub(E0, 1)], chk.seed, 3)
            chk.decide(ok0, "kernel-initial-condition", disp.qname, f"NS kernel at a1=a0 is not 1 ({inst})",
                       where=disp.where, instance=inst, data={"witness": info0}, how="PIT F_p")
            r = dag.sub(dag.diff(dag.fn("log", E), "a1"), ref)
            ok, info = valuation_at_least([r], scal, n - 1, chk.seed, k)
            chk.decide(ok, "agrees-with-exact-to-working-order", disp.qname,
                       f"non-singlet {mname} at order {n}: d ln K/da1 - gamma/beta has a term of order lam^{info.get('lowest_power')}"
                       f" (< lam^{n - 1}): the method gets a term below the working order wrong",
                       where=disp.where, instance=inst, data={"witness": info, "kernel": dag.short(dag.tonode(E), 400)},
                       detail=f"residual = O(lam^{n - 1})", how="Laurent series over F_p")

    # ------------------------------------------------------------------ singlet
    sdisp = src.func(f"{kern.SG}.dispatcher")
    cases = []
    for n in (2, 3, 4):
        cases.append((n, "TRUNCATED", 1, n))
        cases.append((n, "ORDERED_TRUNCATED", 1, n))
        for its in (1, 2):           # two steps: the order in which the step operators are multiplied matters (non-commuting matrices)
            for mo in ((n, n + 1, n + 3) if chk.tier == "thorough" else (n, n + 1) if its == 1 else (n,)):
                cases.append((n, "PERTURBATIVE_EXACT", its, mo))
                cases.append((n, "PERTURBATIVE_EXPANDED", its, mo))
    for n, mname, its, mo in cases:
        inst = f"order={n},method={mname},iterations={its},max_order={mo}"
        n_inst += 1
        G = kern.sg_gamma(n)
        betas = kern.beta_lit(n)
        K = pe.call(sdisp.qname, [(n, 0), M[mname], G, a1, a0, nf, its, (mo, 0)])
        chk.need(isinstance(K, Arr) and K.shape == (2, 2), f"singlet kernel is not a 2x2 array ({inst})")
        # initial condition: the closed form of the LO factor is 0/0 at a1=a0 (hence the dispatcher's guard);
        # its limit is the identity, so re-extract K with lo_exact replaced by a symbolic matrix E0 and set
        # a1:=a0, E0:=1.
        count = [0]

        def lo_model(pe_, args, kwargs, count=count):
            count[0] += 1
            return Arr.from_nested([[dag.sym(f"E0_{count[0]}_{i}{j}") for j in range(2)] for i in range(2)])

        pe.overrides[f"{kern.SG}.lo_exact"] = lo_model
        try:
            Ks = pe.call(sdisp.qname, [(n, 0), M[mname], G, a1, a0, nf, its, (mo, 0)])
        finally:
            del pe.overrides[f"{kern.SG}.lo_exact"]
        sub = {"a1": a0}
        for c in range(1, count[0] + 1):
            for i in range(2):
                for j in range(2):
                    sub[f"E0_{c}_{i}{j}"] = 1 if i == j else 0
        K0 = kern.mat_map(lambda x: dag.substitute(dag.tonode(x), sub), Ks)
        ok0, info0 = dag.is_zero_fp(kern.mat_sub(K0, kern.eye(2)).flat(), chk.seed, 2)
        chk.decide(ok0, "kernel-initial-condition", sdisp.qname, f"singlet kernel formula at a1=a0 is not the identity ({inst})",
                   where=sdisp.where, instance=inst, data={"witness": info0}, how="PIT F_p")
        dK = kern.mat_map(lambda x: dag.diff(x, "a1"), K)
        rho = kern.mat_sub(kern.mat_mul(dK, kern.mat_inv(pe, K)), kern.gamma_over_beta_matrix(G, betas, a1))
        ok, info = valuation_at_least(rho.flat(), scal, n - 1, chk.seed, k)
        chk.decide(ok, "agrees-with-exact-to-working-order", sdisp.qname,
                   f"singlet {mname} at order {n}: (dK/da1)K^-1 - gamma/beta has a term of order lam^{info.get('lowest_power')}"
                   f" (< lam^{n - 1}) in entry {info.get('index')}: a term below the working order is wrong ({inst})",
                   where=sdisp.where, instance=inst, data={"witness": info},
                   detail=f"residual = O(lam^{n - 1})", how="Laurent series over F_p")
    chk.floor("kernel instances", n_inst, 15 + 24)
    chk.note(instances=n_inst, files=["src/eko/kernels/non_singlet.py", "src/eko/kernels/singlet.py"])
    chk.explanation = ("Residual of the DGLAP equation for each approximate kernel formula has lam-valuation >= n-1 "
                       "(hence kernel = exact kernel * (1 + O(a^n))), for all anomalous dimensions and nf.")
