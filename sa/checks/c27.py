"""C27 - large-N behaviour matches the cusp anomalous dimension (abstract interpretation in an asymptotic-expansion domain)."""
from __future__ import annotations

import sympy as sp

from .. import asym, dag, ekore_model as em
from ..pe import PE, PERaise
from ..src import load

LEVEL = "other"
META = {
    "text": "The sector dispatchers are partially evaluated at symbolic N (harmonic sums as atoms) and each order slice is "
            "interpreted in an abstract domain of truncated expansions sum c_jm N^-j ln^m N + O(N^-r) with exact coefficients: "
            "rational operations are carried out on the expansions (with remainder tracking), the harmonic sums S_k(N), their "
            "half-argument and shifted forms and the alternating sums get their expansions from the closed forms in polygamma "
            "functions, nested sums their literature limits. Decided, for nf = 3, 4, 5 and every order: the diagonal non-singlet "
            "anomalous dimensions (+, -, valence), unpolarised, polarised and time-like, have NO term growing faster than ln N "
            "(no positive power of N, no ln^2 N or higher at order N^0) and their ln N coefficient equals the cusp coefficient "
            "A_k(nf) - exactly (1e-9) for the closed-form orders A_1, A_2, to the digits of the published parametrisations for "
            "A_3, and within the published uncertainty for A_4 (all three N3LO variation indices, FHMRUVV and the older "
            "parametrisation); the gluon-gluon entry grows like (C_A/C_F) A_k ln N through three loops; at four loops Casimir "
            "scaling is broken by quartic colour factors (Moch et al. 2018), so the published four-loop gluon cusp coefficient "
            "A_{4,g} is the reference there - the tree reproduces it to 0.01.",
    "note": "The statement is about the asymptotic expansion of the implemented formulas, not about floating-point values at a "
            "finite N.",
    "technique": "partial evaluation + abstract interpretation in an asymptotic-expansion domain (exact coefficients, remainder tracking); comparison with literature cusp coefficients",
    "engine": "sa",
}

CF, CA = sp.Rational(4, 3), sp.Integer(3)
z2, z3 = sp.zeta(2), sp.zeta(3)


def A(k, nf):
    """cusp anomalous dimension coefficients for a_s = alpha_s/(4 pi) (Moch-Vermaseren-Vogt 2004; Moch et al. 2017 for A_4)"""
    if k == 1:
        return 4 * CF
    if k == 2:
        return 8 * CF * ((sp.Rational(67, 18) - z2) * CA - sp.Rational(5, 9) * nf)
    if k == 3:
        return 16 * CF * (CA ** 2 * (sp.Rational(245, 24) - sp.Rational(67, 9) * z2 + sp.Rational(11, 6) * z3 + sp.Rational(11, 5) * z2 ** 2)
                          + CF * nf * (-sp.Rational(55, 24) + 2 * z3) + CA * nf * (-sp.Rational(209, 108) + sp.Rational(10, 9) * z2 - sp.Rational(7, 3) * z3)
                          + nf ** 2 * (-sp.Rational(1, 27)))
    if k == 4:
        return sp.Float("20702") - sp.Float("5171.9") * nf + sp.Float("195.5772") * nf ** 2 + sp.Float("3.272344") * nf ** 3
    raise ValueError(k)


def A4_gluon(nf):
    """four-loop gluon cusp coefficient (Moch, Ruijl, Ueda, Vermaseren, Vogt 2018): generalised Casimir scaling is broken by quartic
    colour factors, so (C_A/C_F) A_4 does NOT hold at this order - the published gluon value is the reference"""
    return sp.Float("40880.33") - sp.Float("11714.246") * nf + sp.Float("440.0488") * nf ** 2 + sp.Float("7.362774") * nf ** 3


# absolute tolerances: A_3 enters through 4-7 digit parametrisations; A_4 = 20702(2) - 5171.9(2) nf + ..., and the N3LO variation
# indices 1, 2 are the two ends of the published approximation band of the large-N coefficient (half-width about 6.5 at nf = 5)
TOL = {1: 1e-9, 2: 1e-9, 3: 2e-2, 4: 1.0}
TOL_BAND = 7.5


def run(chk):
    src = load()
    pe = PE(src, assume=em.assume_generic_moment)
    em.install_cache_atoms(pe)
    em.install_special_function_atoms(pe)
    chk.rule_text = "expansion(gamma_diag^(k)) = A_{k+1} ln N + const + o(1): no growth beyond ln N, exact ln N coefficient"
    chk.trusted += ["sympy asymptotic series of polygamma functions", "literature values of A_1..A_4 and of nested-sum limits"]
    N = dag.sym("N")
    AD = "ekore.anomalous_dimensions"
    n_ob = 0

    def judge(node, k, nf, construct, where, inst, factor=1, band=False):
        nonlocal n_ob
        try:
            a = asym.evaluate(node)
        except dag.Undecidable as e:
            chk.need(False, f"{construct} {inst}: large-N expansion not decidable: {e}")
        n_ob += 1
        growth = {(j, m): sp.N(v, 8) for (j, m), v in a.t.items() if (j < 0 or (j == 0 and m >= 2)) and abs(sp.N(v, 15)) > 1e-7}
        ok_shape = a.rem >= 1 and not growth
        lead = float(sp.N(a.coeff(0, 1), 20))
        gluon4 = factor != 1 and k == 4
        want = float(sp.N(A4_gluon(nf) if gluon4 else factor * A(k, nf), 20))
        tol = (TOL_BAND if band else TOL[k]) * (1.0 if gluon4 else float(factor))
        chk.decide(ok_shape and abs(lead - want) <= tol, "large-N-is-cusp-times-log", construct,
                   f"{inst}: a_s^{k} slice behaves like {lead:.6f} ln N at large N, required {'(C_A/C_F) ' if factor != 1 else ''}A_{k}(nf={nf}) ln N = {want:.6f} "
                   f"(tolerance {tol:g}); terms growing faster than ln N: {growth or 'none'}; expansion valid through O(N^-{a.rem - 1})", where=where,
                   instance=inst, detail=f"{lead:.6f} vs {want:.6f}", how="asymptotic-expansion domain")

    # ---- unpolarised space-like ---------------------------------------------------------------------------------------------
    fN = src.func(f"{AD}.unpolarized.space_like.gamma_ns")
    fS = src.func(f"{AD}.unpolarized.space_like.gamma_singlet")
    for nf in (3, 4, 5):
        for fh in (True, False):
            for var in ((0, 1, 2) if fh else (0,)):
                for mode, mname in ((10101, "ns+"), (10201, "ns-"), (10200, "nsV")):
                    try:
                        g = pe.call(fN.qname, [(4, 0), mode, N, nf, (var,) * 7, fh])
                    except PERaise as e:
                        chk.fail("large-N-is-cusp-times-log", fN.qname, f"{mname}, nf={nf}: raises {e}", where=fN.where, instance=f"{mname},{nf},{fh},{var}")
                        continue
                    for k in range(4):
                        if k < 3 and (var != 0 or not fh):
                            continue
                        judge(g[k], k + 1, nf, fN.qname, fN.where, f"{mname},nf={nf},order={k + 1}" + (f",{'FHMRUVV' if fh else 'older'} variation {var}" if k == 3 else ""),
                              band=(k == 3 and var != 0))
                try:
                    G = pe.call(fS.qname, [(4, 0), N, nf, (var,) * 7, fh])
                except PERaise as e:
                    chk.fail("large-N-is-cusp-times-log", fS.qname, f"nf={nf}: raises {e}", where=fS.where, instance=f"gg,{nf},{fh},{var}")
                    continue
                for k in range(4):
                    if k < 3 and (var != 0 or not fh):
                        continue
                    judge(G[k, 1, 1], k + 1, nf, fS.qname, fS.where, f"gg,nf={nf},order={k + 1}" + (f",{'FHMRUVV' if fh else 'older'} variation {var}" if k == 3 else ""),
                          factor=CA / CF)
    # ---- polarised and time-like non-singlet share the cusp coefficients -----------------------------------------------------------
    for kind, q, maxo in (("polarised", f"{AD}.polarized.space_like.gamma_ns", 3), ("time-like", f"{AD}.unpolarized.time_like.gamma_ns", 3)):
        f = src.func(q)
        for nf in (3, 4, 5):
            for mode, mname in ((10101, "ns+"), (10201, "ns-"), (10200, "nsV")):
                args = {"order": (maxo, 0), "mode": mode, "n": N, "N": N, "nf": nf}
                try:
                    g = pe.call(q, [args[p] for p in f.params])
                except PERaise as e:
                    chk.fail("large-N-is-cusp-times-log", q, f"{kind} {mname}, nf={nf}: raises {e}", where=f.where, instance=f"{kind},{mname},{nf}")
                    continue
                for k in range(maxo):
                    judge(g[k], k + 1, nf, q, f.where, f"{kind},{mname},nf={nf},order={k + 1}")
    chk.floor("expansions judged", n_ob, 120)
    chk.note(expansions=n_ob, files=["src/ekore/anomalous_dimensions/**"])
    chk.explanation = "ln N coefficient and absence of faster growth decided in an asymptotic-expansion abstract domain."
