"""C01 - an EKO whose target equals its initial point is the identity operator (exhaustive PE of the shortcut path)."""
from __future__ import annotations

from fractions import Fraction

from .. import dag, flav
from ..arr import Arr
from ..core import pmap
from ..pe import PE, Obj, PERaise
from ..src import load
from .c32 import PH, tensor_of

LEVEL = "proof"
META = {
    "text": "Operator.compute is partially evaluated on a synthetic Operator whose initial and final scales coincide, for every "
            "perturbative order (1-4) x QED order (0-2), nf 3-6, every scale-variation mode, scale ratio 1 or not, threshold flag "
            "on/off, with the integration routine replaced by a recorder. Decided: (1) the shortcut is taken exactly when the "
            "property requires it (no integration unless an expanded scale variation with non-unit ratio is requested on a "
            "non-threshold operator) - the full truth table; (2) on the shortcut path the members produced by "
            "initialize_op_members + copy_ns_ops, pushed through PhysicalOperator.ad_to_evol_map and to_flavor_basis_tensor, "
            "give EXACTLY the identity on gluon, the nf active quarks/antiquarks and all inactive heavy quarks; with QED also on the "
            "photon, in pure QCD the photon row and column are zero; (3) the same with the debug skip flags off only (the flags "
            "deliberately drop sectors)."
            " (4) several requests in ONE evaluator with the initial point on a matching scale and alternating initial flavour numbers: the parts to compute for target = initial point are the single empty segment (no state of an earlier request leaks into the path)."
            " (5) parts.evolve asked four times in ONE evaluator (zero-length segments in pure QCD, with QED, in QCD again; a final segment while the store holds its cliff twin): every part is the flavour tensor of the operator built for that request.",
    "note": "The statement is exact for the shortcut path, which is the path taken by every configuration the property covers "
            "(polarised/time-like flags, method and grid do not enter that path: decided by the absence of reads of those "
            "settings on it). The numerically integrated path of an expanded scale variation is excluded by the property.",
    "technique": "exhaustive partial evaluation over the configuration space with a mocked integrator + exact tensor comparison",
    "engine": "sa",
}

OP = "eko.evolution_operator.Operator"


def _make_operator(pe, src, order, nf, sv, xif2, thr, q_equal=True):
    cls = src.cls(OP)
    o = Obj(cls)
    svm = pe.get_global("eko.io.types", "ScaleVariationsMethod")
    modsv = None if sv == "unvaried" else pe.enum_members(svm.cls)[sv.upper()] if sv.upper() in pe.enum_members(svm.cls) else None
    if sv != "unvaried" and modsv is None:
        # enumeration member names may be lower-case
        modsv = pe.enum_members(svm.cls)[sv]
    config = {"order": order, "debug_skip_non_singlet": False, "debug_skip_singlet": False, "ModSV": modsv, "xif2": xif2,
              "method": "iterate-exact", "n_integration_cores": 1, "ev_op_iterations": 1, "use_fhmruvv": False}
    xg = Obj(src.cls("eko.interpolation.XGrid"))
    xg.attrs.update(size=1, raw=Arr.from_nested([1]))
    disp = Obj(src.cls("eko.interpolation.InterpolatorDispatcher"))
    disp.attrs.update(xgrid=xg, log=True)
    mgr = Obj(src.cls("eko.evolution_operator.Managers"))
    mgr.attrs.update(interpolator=disp, couplings=None, atlas=None)
    o.attrs.update(config=config, managers=mgr, nf=nf, q2_from=Fraction(100), q2_to=Fraction(100) if q_equal else Fraction(400),
                   _mellin_cut=Fraction(1, 100), is_threshold=thr, op_members={}, order=tuple(order), alphaem_running=False,
                   a=(Arr.from_nested([dag.sym("as0"), dag.sym("aem0")]), Arr.from_nested([dag.sym("as1"), dag.sym("aem1")])))
    return o


def _case(chk, case):
    src = load()
    pe = PE(src)
    order, nf = case
    fcomp = src.func(f"{OP}.compute")
    qed = order[1] > 0
    integrated = []
    pe.overrides[f"{OP}.integrate"] = lambda pe_, a, k: integrated.append(1)
    first_members = None
    for sv in ("unvaried", "exponentiated", "expanded"):
        for xif2 in (Fraction(1), Fraction(2)):
            for thr in (False, True):
                inst = f"order={order},nf={nf},sv={sv},xif2={xif2},threshold={thr}"
                o = _make_operator(pe, src, order, nf, sv, xif2, thr)
                del integrated[:]
                try:
                    pe.apply(pe.getattr(o, "compute"), [], {})
                except PERaise as e:
                    chk.fail("identity-shortcut-truth-table", fcomp.qname, f"compute raises {e} ({inst})", where=fcomp.where, instance=inst)
                    continue
                must_integrate = (sv == "expanded" and xif2 != 1 and not thr)
                chk.decide(bool(integrated) == must_integrate, "identity-shortcut-truth-table", fcomp.qname,
                           f"{inst}: compute {'integrates' if integrated else 'takes the identity shortcut'}, but the property requires "
                           f"{'integration' if must_integrate else 'the exact identity'} for coinciding scales", where=fcomp.where,
                           instance=inst, detail="shortcut iff not (expanded and xif2!=1 and not threshold)", how="exhaustive PE")
                if integrated:
                    continue
                # the members produced on the shortcut path do not depend on (sv, xif2, threshold): build the flavour
                # tensor once per (order, nf) and compare the members of the other combinations with the first set
                snap = {k: (v.attrs["value"].flat(), v.attrs["error"].flat()) for k, v in o.attrs["op_members"].items()}
                if first_members is not None:
                    chk.decide(snap == first_members, "identity-operator-in-flavour-basis", fcomp.qname,
                               f"{inst}: the operator members on the identity path differ from those of the other scale-variation "
                               f"settings", where=fcomp.where, instance=inst, detail="same members as first shortcut case", how="exhaustive PE, exact")
                    continue
                first_members = snap
                # identity in the flavour basis
                try:
                    ob = pe.apply(pe.getattr(pe.import_ref(PH), "ad_to_evol_map"), [o.attrs["op_members"], nf, Fraction(100), qed], {})
                    T = tensor_of(pe, ob, qed)
                except PERaise as e:
                    chk.fail("identity-operator-in-flavour-basis", fcomp.qname, f"flavour tensor cannot be built: {e} ({inst})",
                             where=fcomp.where, instance=inst)
                    continue
                bad = None
                for oi in range(14):
                    for ii in range(14):
                        v = dag.as_const(T[oi, 0, ii, 0])
                        po, pi = flav.PIDS[oi], flav.PIDS[ii]
                        want = 1 if oi == ii else 0
                        if not qed and (po == 22 or pi == 22):
                            want = 0
                        if v is None or v != want:
                            bad = (po, pi, v, want)
                            break
                    if bad:
                        break
                chk.decide(bad is None, "identity-operator-in-flavour-basis", fcomp.qname,
                           f"{inst}: the operator for a target equal to the initial point maps pid {bad[1] if bad else ''} onto pid "
                           f"{bad[0] if bad else ''} with weight {bad[2] if bad else ''} (must be {bad[3] if bad else ''})",
                           where=fcomp.where, instance=inst, detail="exact identity on 13 (14 with QED) channels", how="exhaustive PE, exact")


def run(chk):
    src = load()
    chk.rule_text = "coinciding scales => exact identity tensor (photon decoupled in QCD); shortcut truth table"
    cases = [((a, b), nf) for a in (1, 2, 3, 4) for b in (0, 1, 2) for nf in ((3, 4, 5, 6) if chk.tier == "thorough" else (3, 6))]
    if chk.tier == "quick":
        cases += [((4, 0), 4), ((2, 1), 5), ((1, 0), 5)]
    pmap(chk, _case, cases, jobs=14)
    # the shortcut path must not depend on polarisation / time-like / method / grid: none of these settings is read on it
    fcomp = src.func(f"{OP}.compute")
    import ast

    reads = set()
    for fn in ("compute", "initialize_op_members", "copy_ns_ops", "labels"):
        f = src.func(f"{OP}.{fn}")
        for n in ast.walk(f.node):
            if isinstance(n, ast.Subscript) and ast.unparse(n.value) == "self.config" and isinstance(n.slice, ast.Constant):
                reads.add(n.slice.value)
    allowed = {"order", "debug_skip_non_singlet", "debug_skip_singlet", "method", "use_fhmruvv", "ModSV", "xif2"}
    chk.decide(reads <= allowed, "shortcut-independent-of-irrelevant-settings", fcomp.qname,
               f"the identity path reads settings {sorted(reads - allowed)} that must not influence it", where=fcomp.where,
               detail=f"settings read on the identity path: {sorted(reads)}")
    _second_request_in_one_process(chk, src)
    evolve_uses_its_own_operator(chk, src)
    chk.floor("configurations", len(cases), 24)
    chk.note(instances=len(cases) * 12, files=["src/eko/evolution_operator/__init__.py", "src/eko/evolution_operator/physical.py",
                                               "src/eko/member.py", "src/eko/evolution_operator/flavors.py"])
    chk.explanation = "Identity shortcut: truth table and exact identity tensor for every order/nf/scale-variation configuration."


def evolve_uses_its_own_operator(chk, src, rule="part-comes-from-the-operator-of-this-request"):
    """runner.parts.evolve asked several times in ONE process: zero-length segments in pure QCD, with QED, in QCD again, and a final
    (non-cliff) segment while the store already holds its twin computed as a cliff.  Every answer is the flavour tensor of the
    operator built for THAT request (its own members, the qed flag of its card, the threshold flag of its recipe) - nothing kept
    from an earlier request or found in the store stands in for it.  The Operator is the real class on a synthetic object (real
    compute, recording integrate); the blow-up to the flavour basis is a recording stand-in (shared with C53)."""
    from ..pe import Opaque, named_arguments

    fev = src.func("eko.runner.parts.evolve")
    pe = PE(src)
    built = []

    def mk_operator(p_, a, k):
        kw = named_arguments(k)
        seg = kw.get("segment")
        order = current["order"]
        o = _make_operator(p_, src, order, 4, current["sv"], Fraction(2), bool(kw.get("is_threshold")))
        o.attrs.update(q2_from=p_.getattr(seg, "origin"), q2_to=p_.getattr(seg, "target"), nf=p_.getattr(seg, "nf"))
        built.append((o, kw))
        return o

    pe.overrides[OP] = mk_operator
    pe.overrides[f"{OP}.integrate"] = lambda pe_, a, k: None
    pe.overrides["eko.runner.parts._evolve_configs"] = lambda p_, a, k: "CONFIGS"
    pe.overrides["eko.runner.parts._managers"] = lambda p_, a, k: "MANAGERS"

    class Map(Opaque):
        def __init__(self, members, qed):
            self.members, self.qed = members, qed

        def to_flavor_basis_tensor(self, qed=False):
            return (("RES", id(self.members), self.qed, qed), ("ERR", id(self.members), self.qed, qed))

    pe.overrides["eko.evolution_operator.physical.PhysicalOperator.ad_to_evol_map"] = \
        lambda p_, a, k: Map(named_arguments(k).get("op_members"), named_arguments(k).get("qed"))
    evc = src.cls("eko.io.items.Evolution")
    current = {}
    n = 0
    bad = None
    svm = pe.enum_members(pe.get_global("eko.io.types", "ScaleVariationsMethod").cls)
    requests = [("zero-length segment, pure QCD", (1, 0), "unvaried", Fraction(100), False, False),
                ("zero-length segment, QCD x QED", (1, 1), "unvaried", Fraction(100), False, False),
                ("zero-length segment, pure QCD again", (2, 0), "unvaried", Fraction(100), False, False),
                ("final segment while the store holds the same segment computed as a cliff, expanded scheme", (2, 0), "expanded", Fraction(400), False, True)]
    for label, order, sv, q_to, cliff, twin in requests:
        current.update(order=order, sv=sv)
        eko = Opaque()
        eko.theory_card = Opaque()
        eko.theory_card.order = order
        eko.operator_card = Opaque()
        eko.operator_card.configs = Opaque()
        eko.operator_card.configs.scvar_method = next((v for k_, v in svm.items() if k_.upper() == sv.upper()), None)
        rec = pe.instantiate(evc.qname, [Fraction(100), q_to, 4], {"cliff": cliff})
        eko.parts = {pe.hashable(pe.instantiate(evc.qname, [Fraction(100), q_to, 4], {"cliff": not cliff})): "TWIN-PART"} if twin else {}
        before = len(built)
        try:
            out = pe.call(fev.qname, [eko, rec])
        except PERaise as e:
            if "out of date" in str(e):
                raise
            bad = bad or (label, f"raises {e}")
            continue
        n += 1
        new = built[before:]
        qed = order[1] > 0
        why = None
        if len(new) != 1:
            why = f"builds {len(new)} operators"
        elif bool(new[0][1].get("is_threshold")) != cliff:
            why = f"builds its operator with is_threshold={new[0][1].get('is_threshold')} for a recipe with cliff={cliff}"
        else:
            res = pe.getattr(out, "operator") if isinstance(out, Obj) else None
            members = new[0][0].attrs.get("op_members")
            if not (isinstance(res, tuple) and res[:1] == ("RES",) and res[1] == id(members) and res[2] is qed and res[3] is qed):
                why = (f"returns {('the tensor of another operator / request ' + str(res[2:])) if isinstance(res, tuple) else repr(out)[:60]} "
                       f"instead of the flavour tensor of the operator built for this request with qed={qed}")
        if why and bad is None:
            bad = (label, why)
    chk.decide(bad is None, rule, fev.qname,
               f"parts.evolve asked {len(requests)} times in one process: request `{bad[0] if bad else ''}` {bad[1] if bad else ''} - the part depends on what "
               f"was computed before or on what the store holds", where=fev.where, instance="requests in one process",
               how="PE of consecutive requests in one evaluator (real Operator.compute, recording blow-up)")
    chk.floor("evolve requests", n, 4)


def _second_request_in_one_process(chk, src):
    """The identity shortcut is taken for a part whose end points coincide; for a target equal to the initial point the recipes must
    therefore consist of exactly one such part - also when the same process handled another initial flavour number on the same
    scale before (an initial point on a matching scale may be given with either flavour number).  Evaluated with ONE evaluator, so
    module-level state of the runner persists between the requests."""
    from ..pe import Opaque

    pe = PE(src)
    fat = src.func("eko.runner.commons.atlas")
    pe.overrides["eko.io.runcards.masses"] = lambda p_, a, k: [Fraction(10), Fraction(20), Fraction(30)]
    thc = Opaque()
    thc.heavy = Opaque()
    thc.heavy.matching_ratios = [Fraction(1), Fraction(1), Fraction(1)]
    n = 0
    for i, (mu20, nf0) in enumerate([(Fraction(10), 3), (Fraction(10), 4), (Fraction(10), 3), (Fraction(20), 5), (Fraction(20), 4)]):
        opc = Opaque()
        opc._real = "eko.io.runcards.OperatorCard"
        opc.mu20 = mu20
        opc.init = (dag.sym("mu0"), nf0)
        opc.configs = Opaque()
        opc.configs.evolution_method = "EVMETH"
        inst = f"request {i + 1} of one process: initial point = target = ({mu20}, nf={nf0})"
        try:
            atlas = pe.call(fat.qname, [thc, opc])
            recs = pe.call("eko.runner.recipes._elements", [(mu20, nf0), atlas])
            shape = [(r.cls.node.name, str(pe.getattr(r, "origin")) if r.cls.node.name == "Evolution" else str(pe.getattr(r, "scale")),
                      str(pe.getattr(r, "target")) if r.cls.node.name == "Evolution" else "", pe.getattr(r, "nf") if r.cls.node.name == "Evolution" else pe.getattr(r, "hq"))
                     for r in recs]
        except PERaise as e:
            shape = [("raises", str(e), "", 0)]
        n += 1
        chk.decide(shape == [("Evolution", str(mu20), str(mu20), nf0)], "identity-operator-in-flavour-basis", fat.qname,
                   f"{inst}: the parts to compute are {shape}; required the single empty part ({mu20} -> {mu20}, nf={nf0}) - anything else (a matching "
                   f"taken over from an earlier request with another initial flavour number) makes the operator for target = initial point differ "
                   f"from the identity", where=fat.where, instance=inst, how="PE of commons.atlas + recipes._elements, one evaluator for all requests")
    chk.floor("requests in one process", n, 5)
