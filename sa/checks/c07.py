"""C07 - exact non-singlet kernels solve the DGLAP equation (proof, formula level)."""
from __future__ import annotations

from .. import dag, literature as lit
from ..arr import Arr
from ..pe import PE, PERaise
from ..src import load

LEVEL = "proof"
META = {
    "text": "For every order 1-4 and every method the dispatcher maps to an exact solution, the non-singlet kernel is extracted "
            "as a closed formula E(a1,a0) with symbolic anomalous dimensions, couplings and nf, and proved to satisfy "
            "E(a0,a0)=1 and beta(a1) dE/da1 = gamma(a1) E with gamma, beta truncated at the order and beta_k taken from the "
            "literature table (so the beta wiring is part of the proof). The fixed-alpha_em QED kernel is proved to solve the "
            "same equation with beta0 -> beta0 + a_em beta^(2,1), gamma_k -> sum_j gamma[k+1,j] a_em^j and initial value "
            "exp(sum_j gamma[0,j] a_em^j ln(mu0^2/mu1^2)), for nf 3-6 and QED orders 1-2."
            " The stepped QED kernel (several coupling steps, one alpha_em) with free intermediate coupling and scale equals the product of the one-step kernels over their own intervals.",
    "note": "Formula-level: floating-point evaluation, branch cuts of complex log/atan/cbrt (nf=6) are not decided; "
            "np.real(delta/Delta) treated as identity as the source documents. PIT in F_p, error < 1e-30.",
    "technique": "partial evaluation to formulas + DAG differentiation + polynomial identity testing (ODE residual = 0)",
    "engine": "sa",
}

NS = "eko.kernels.non_singlet"
QNS = "eko.kernels.non_singlet_qed"


def _complex(pe_, a, k):
    return a[0] if len(a) == 1 else pe_.s_add(a[0], pe_.s_mul(a[1], dag.sym("I")))


def run(chk):
    src = load()
    pe = PE(src, real_is_identity=True)
    pe.ext["builtins.complex"] = _complex
    chk.assumptions.append("np.real(delta/Delta) == delta/Delta; principal branches of log/atan/sqrt/cbrt")
    chk.trusted += ["sa/literature.py beta table", "random interpretation in F_p"]
    chk.rule_text = "E(a0,a0) = 1 and beta(a1) * dE/da1 - gamma(a1) * E == 0 as an identity in all symbols"
    k = 3 if chk.tier == "quick" else 6
    a1, a0, nf = dag.sym("a1"), dag.sym("a0"), dag.sym("nf")
    g = [dag.sym(f"g{i}") for i in range(4)]
    methods = pe.get_global("eko.kernels", "EvoMethods")
    members = pe.enum_members(methods.cls)
    chk.need(members and "ITERATE_EXACT" in members, "EvoMethods enumeration vanished")
    disp = src.func(f"{NS}.dispatcher")
    n_inst = 0
    betas_lit = [lit.BETA_QCD[(2 + i, 0)][0] for i in range(4)]
    for n in range(1, 5):
        gam = Arr.from_nested(g[:n])
        beta_a = dag.addn([dag.mul(betas_lit[i], dag.power(a1, i + 2)) for i in range(n)])
        gamma_a = dag.addn([dag.mul(g[i], dag.power(a1, i + 1)) for i in range(n)])
        for mname in ("ITERATE_EXACT", "PERTURBATIVE_EXACT", "DECOMPOSE_EXACT"):
            E = pe.call(disp.qname, [(n, 0), members[mname], gam, a1, a0, nf])
            n_inst += 1
            inst = f"order={n},method={mname}"
            E0 = dag.substitute(dag.tonode(E), {"a1": a0})
            ok0, info0 = dag.is_zero_fp([dag.sub(E0, 1)], chk.seed, k)
            chk.decide(ok0, "kernel-initial-condition", disp.qname, f"exact NS kernel at a1=a0 is not 1 ({inst})",
                       where=disp.where, instance=inst, data={"witness": info0}, how="PIT F_p")
            try:
                dE = dag.diff(E, "a1")
            except dag.Undecidable as e:
                # not a verdict on the kernel: the analysis lacks a rule
                chk.need(False, f"no derivative rule for an operation in the kernel ({e}) ({inst})")
            res = dag.sub(dag.mul(beta_a, dE), dag.mul(gamma_a, E))
            ok, info = dag.is_zero_fp([res], chk.seed, k)
            chk.decide(ok, "kernel-solves-dglap", disp.qname,
                       f"exact NS kernel does not solve beta(a) dE/da = gamma(a) E with literature beta_k ({inst})",
                       where=disp.where, instance=inst, data={"witness": info, "kernel": dag.short(dag.tonode(E), 500)},
                       detail="ODE residual == 0", how="DAG differentiation + PIT F_p")

    # --- QED, fixed alpha_em -------------------------------------------------------------
    fq = src.func(f"{QNS}.fixed_alphaem_exact")
    aem, mf, mt = dag.sym("aem"), dag.sym("mu2_from"), dag.sym("mu2_to")
    nfs = (3, 4, 5, 6) if chk.tier == "thorough" else (4, 5)
    for n in range(1, 5):
        for m in (1, 2):
            for nfc in nfs:
                G = Arr.from_nested([[dag.sym(f"G{i}_{j}") for j in range(m + 1)] for i in range(n + 1)])
                R = pe.call(fq.qname, [(n, m), G, a1, a0, aem, nfc, mf, mt])
                n_inst += 1
                inst = f"order=({n},{m}),nf={nfc}"
                bl = [dag.substitute(betas_lit[i], {"nf": nfc}) for i in range(n)]
                bl[0] = dag.add(bl[0], dag.mul(aem, lit.beta_qcd_as2aem1(nfc)))
                beta_a = dag.addn([dag.mul(bl[i], dag.power(a1, i + 2)) for i in range(n)])
                gk = [dag.addn([dag.mul(G[i, j], dag.power(aem, j)) for j in range(m + 1)]) for i in range(n + 1)]
                gamma_a = dag.addn([dag.mul(gk[i + 1], dag.power(a1, i + 1)) for i in range(n)])
                init = dag.fn("exp", dag.mul(gk[0], dag.fn("log", dag.div(mf, mt))))
                R0 = dag.substitute(dag.tonode(R), {"a1": a0})
                ok0, info0 = dag.is_zero_fp([dag.sub(R0, init)], chk.seed, k)
                chk.decide(ok0, "qed-kernel-initial-condition", fq.qname,
                           f"QED NS kernel at a1=a0 is not the pure-QED factor exp(sum_j gamma[0,j] aem^j ln(mu0^2/mu1^2)) ({inst})",
                           where=fq.where, instance=inst, data={"witness": info0}, how="PIT F_p")
                res = dag.sub(dag.mul(beta_a, dag.diff(R, "a1")), dag.mul(gamma_a, R))
                ok, info = dag.is_zero_fp([res], chk.seed, k)
                chk.decide(ok, "qed-kernel-solves-dglap", fq.qname,
                           f"QED NS kernel does not solve the DGLAP equation with the QED-shifted beta function ({inst})",
                           where=fq.where, instance=inst, data={"witness": info}, how="DAG differentiation + PIT F_p")
    # the stepped form (several coupling steps, the same alpha_em in each): the product of the one-step kernels, each over ITS OWN
    # interval of scales - decided with free intermediate points (coupling am, scale mm) so that it holds for any grid of steps
    fx = src.func(f"{QNS}.exact")
    am, mm = dag.sym("am"), dag.sym("mu2_mid")
    old_geom = pe.ext.get("numpy.geomspace")
    pe.ext["numpy.geomspace"] = lambda pe_, a, k: Arr.from_nested([a[0], mm, a[1]]) if pe_.as_index(k.get("num", a[2] if len(a) > 2 else 50)) == 3 else old_geom(pe_, a, k)
    try:
        for n in range(1, 5):
            for m in (1, 2):
                inst = f"order=({n},{m}),nf=4,two steps"
                G = Arr.from_nested([[dag.sym(f"G{i}_{j}") for j in range(m + 1)] for i in range(n + 1)])
                try:
                    R2 = pe.call(fx.qname, [(n, m), G, Arr.from_nested([a0, am, a1]), Arr.from_nested([aem, aem]), 4, 2, mf, mt])
                    late = pe.call(fq.qname, [(n, m), G, a1, am, aem, 4, mm, mt])
                    early = pe.call(fq.qname, [(n, m), G, am, a0, aem, 4, mf, mm])
                    ok, info = dag.is_zero_fp([dag.sub(dag.tonode(R2), dag.mul(dag.tonode(late), dag.tonode(early)))], chk.seed, k)
                except PERaise as e:
                    ok, info = False, {"error": str(e)}
                n_inst += 1
                chk.decide(ok, "qed-kernel-solves-dglap", fx.qname,
                           f"the two-step QED NS kernel (a0, mu0) -> (am, mu_mid) -> (a1, mu1) with one alpha_em is not the product of the one-step "
                           f"kernels over their own intervals: the pure-QED scale factor is then counted over overlapping intervals and the "
                           f"stepped kernel is no solution of the evolution equation ({inst})", where=fx.where, instance=inst, data={"witness": info},
                           how="PE with free intermediate points + PIT F_p")
    finally:
        pe.ext["numpy.geomspace"] = old_geom
    chk.floor("kernel instances", n_inst, 12 + 16 + 8)
    chk.note(instances=n_inst, files=["src/eko/kernels/non_singlet.py", "src/eko/kernels/non_singlet_qed.py",
                                      "src/eko/kernels/evolution_integrals.py", "src/eko/kernels/as4_evolution_integrals.py"])
    chk.explanation = "ODE residual of the extracted closed-form kernels vanishes identically (all gamma_k, a1, a0, nf)."
