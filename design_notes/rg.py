import sympy as sp
a,L,nf=sp.symbols('a L nf')
z3=sp.zeta(3)
def beta(n):
    CA,CF,TR=3,sp.Rational(4,3),sp.Rational(1,2)
    TF=TR*n
    b0=sp.Rational(11,3)*CA-sp.Rational(4,3)*TF
    b1=sp.Rational(34,3)*CA**2-sp.Rational(20,3)*CA*TF-4*CF*TF
    b2=sp.Rational(2857,54)*CA**3-sp.Rational(1415,27)*CA**2*TF-sp.Rational(205,9)*CF*CA*TF+2*CF**2*TF+sp.Rational(44,9)*CF*TF**2+sp.Rational(158,27)*CA*TF**2
    return [b0,b1,b2]
def gm(n):
    return [4, sp.Rational(202,3)-sp.Rational(20,9)*n]
# a' = a + sum_{n>=1} a^{n+1} sum_k c[n,k] L^k ; a=a^{(nf)}, a'=a^{(nf+1)}
c={}
for n in range(1,4):
    for k in range(0,n+1):
        c[n,k]=sp.Symbol(f'c{n}{k}')
def solve(msbar):
    ap=a+sum(a**(n+1)*c[n,k]*L**k for (n,k) in c)
    bl=beta(nf); bh=beta(nf+1)
    dadt=-sum(bl[i]*a**(i+2) for i in range(3))
    # dL/dt : POLE: 1 ; MSBAR with L=ln(mu^2/m(mu)^2): 1+2*gamma_m(a') (a' or a?) 
    if msbar:
        g=gm(nf+1)  # mass runs in nf+1? try
        dLdt=1+2*(g[0]*ap+g[1]*ap**2)
    else: dLdt=1
    lhs=-sum(bh[i]*ap**(i+2) for i in range(3))
    rhs=sp.diff(ap,a)*dadt+sp.diff(ap,L)*dLdt
    res=sp.expand(sp.series(sp.expand(lhs-rhs),a,0,5).removeO())
    eqs=[]
    P=sp.Poly(res,a,L)
    eqs=[co for co in P.coeffs()]
    unknown=[c[n,k] for (n,k) in c if k>=1]
    sol=sp.solve(eqs,unknown,dict=True)
    return sol
for ms in (False,True):
    s=solve(ms)
    for d in s:
        for k,v in sorted(d.items(),key=str): print(ms,k,sp.simplify(v))
