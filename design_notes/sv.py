import sympy as sp
# exponentiated: gamma(a(mu^2)) re-expanded in a' = a(xi^2 mu^2)?  L = ln(xif2)= ln(muF^2/muR^2)
a,L=sp.symbols('a L')
b0,b1,b2=sp.symbols('beta0 beta1 beta2')
g=sp.symbols('g0:4')
# a(t): da/dt = -(b0 a^2 + b1 a^3 + b2 a^4), t = ln mu^2.  Express A = a(t0 + s) in terms of a=a(t0): series in a with s fixed
def run(s):
    A=a
    # Picard / Taylor in s: A = sum_n s^n/n! d^n a/dt^n
    beta=lambda x: -(b0*x**2+b1*x**3+b2*x**4)
    d=a; A=0
    term=a
    for n in range(0,5):
        A+=term*s**n/sp.factorial(n)
        term=sp.expand(sp.diff(term,a)*beta(a))
    A=sp.expand(sp.series(sp.expand(A),a,0,5).removeO())
    G=sum(g[k]*A**(k+1) for k in range(4))
    G=sp.expand(sp.series(sp.expand(G),a,0,5).removeO())
    return [sp.factor(G.coeff(a,k+1)-g[k]) for k in range(4)]
print("s=+L", run(L))
print("s=-L", run(-L))
