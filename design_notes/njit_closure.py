import ast,glob,os
root='/repo/src'
mods={}
for f in glob.glob(root+'/**/*.py',recursive=True):
    name=os.path.relpath(f,root)[:-3].replace('/','.')
    if name.endswith('.__init__'): name=name[:-9]
    mods[name]=(f,ast.parse(open(f).read()))
def is_njit(fn):
    for d in fn.decorator_list:
        s=ast.unparse(d)
        if 'njit' in s or 'jitclass' in s: return True
    return False
funcs={}
for m,(f,t) in mods.items():
    for n in t.body:
        if isinstance(n,ast.FunctionDef): funcs[m+'.'+n.name]=(n,is_njit(n),f)
def resolve_imports(m,t):
    env={}
    pkg=m if mods[m][0].endswith('__init__.py') else m.rsplit('.',1)[0]
    for n in t.body:
        if isinstance(n,ast.Import):
            for a in n.names: env[a.asname or a.name.split('.')[0]]=a.name if a.asname else a.name.split('.')[0]
        elif isinstance(n,ast.ImportFrom):
            base=n.module or ''
            if n.level:
                parts=pkg.split('.')
                parts=parts[:len(parts)-(n.level-1)]
                base='.'.join(parts+([n.module] if n.module else []))
            for a in n.names: env[a.asname or a.name]=base+'.'+a.name
    return env
bad=0;tot=0
for m,(f,t) in mods.items():
    env=resolve_imports(m,t)
    for n in t.body:
        if isinstance(n,ast.FunctionDef) and is_njit(n):
            for c in ast.walk(n):
                if isinstance(c,ast.Call):
                    s=ast.unparse(c.func)
                    head=s.split('.')[0]
                    if head in env: q=env[head]+s[len(head):]
                    else: q=m+'.'+s
                    if q in funcs:
                        tot+=1
                        if not funcs[q][1]:
                            bad+=1; print('NON-NJIT CALLEE',m,n.name,'->',q)
print(tot,bad)
