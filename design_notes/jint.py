import sympy as sp, time
a1,a0,b1,b2,beta0=sp.symbols('a1 a0 b1 b2 beta0')
t=time.time()
Delta=sp.sqrt(4*b2-b1**2)
delta=sp.atan((b1+2*a1*b2)/Delta)-sp.atan((b1+2*a0*b2)/Delta)
beta2=b2*beta0
log=sp.log((1+a1*(b1+b2*a1))/(1+a0*(b1+b2*a0)))
j34=1/(2*beta2)*log-b1/beta2*(delta/Delta)
j24=2/beta0*(delta/Delta)
j12=sp.log(a1/a0)/beta0
j14=j12-b1*j24-b2*j34
D=1+b1*a1+b2*a1**2
for name,j,k in (('j34',j34,3),('j24',j24,2),('j14',j14,1)):
    d=sp.simplify(sp.diff(j,a1)-a1**k/(beta0*a1**2*D))
    z=sp.simplify(j.subs(a1,a0))
    print(name,d,z)
print(time.time()-t)
# cubic roots (Cardano) check
b3=sp.Symbol('b3')
d1=-(b2**2)+3*b1*b3
d2=-2*b2**3+9*b1*b2*b3-27*b3**2
tt=sp.Symbol('t')
p=lambda x: 1+b1*x+b2*x**2+b3*x**3
print(sp.expand(27*b3**2*p((tt-b2)/(3*b3)) - (tt**3+3*d1*tt-d2)))
