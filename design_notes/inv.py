import sympy as sp
a,L=sp.symbols('a L')
c={(n,k):sp.Symbol(f'c{n}{k}') for n in range(1,4) for k in range(n+1)}
c[1,0]=0
d={}
d[1,1]=-c[1,1]; d[1,0]=0
d[2,0]=-c[2,0]; d[2,1]=-c[2,1]; d[2,2]=2*c[1,1]**2-c[2,2]
d[3,0]=-c[3,0]; d[3,1]=5*c[1,1]*c[2,0]-c[3,1]; d[3,2]=5*c[1,1]*c[2,1]-c[3,2]
d[3,3]=-5*c[1,1]**3+5*c[1,1]*c[2,2]-c[3,3]
g=lambda x: x+sum(c[n,k]*L**k*x**(n+1) for (n,k) in c)
f=lambda x: x+sum(d[n,k]*L**k*x**(n+1) for (n,k) in d)
r=sp.expand(sp.series(sp.expand(f(g(a))),a,0,5).removeO())
print(sp.collect(r,a))
