import ast,glob
def term(stmts):
    for s in stmts:
        if isinstance(s,(ast.Return,ast.Raise)): return True
        if isinstance(s,ast.If) and s.orelse and term(s.body) and term(s.orelse): return True
        if isinstance(s,(ast.With,)) and term(s.body): return True
        if isinstance(s,ast.Try):
            if term(s.finalbody): return True
            if term(s.body) and all(term(h.body) for h in s.handlers): return True
        if isinstance(s,ast.While) and isinstance(s.test,ast.Constant) and s.test.value is True: return True
    return False
n=0
for f in glob.glob('/repo/src/**/*.py',recursive=True):
    t=ast.parse(open(f).read())
    for fn in ast.walk(t):
        if isinstance(fn,ast.FunctionDef):
            rets=[r for r in ast.walk(fn) if isinstance(r,ast.Return) and r.value is not None]
            # exclude nested function returns roughly
            if rets and not term(fn.body):
                own=[r for r in rets]
                n+=1; print(f.replace('/repo/',''),fn.name,fn.lineno)
print(n)
