import sympy as sp
a,L,nf=sp.symbols('a L nf')   # a = a^{(nf+1)} (upper scheme)
z3=sp.Symbol('z3')
R=sp.Rational
def beta(n):
    CA,CF,TR=3,R(4,3),R(1,2); TF=TR*n
    return [R(11,3)*CA-R(4,3)*TF, R(34,3)*CA**2-R(20,3)*CA*TF-4*CF*TF,
      R(2857,54)*CA**3-R(1415,27)*CA**2*TF-R(205,9)*CF*CA*TF+2*CF**2*TF+R(44,9)*CF*TF**2+R(158,27)*CA*TF**2]
def gm(n):
    return [4, R(202,3)-R(20,9)*n, 1249-(R(2216,27)+R(160,3)*z3)*n-R(140,81)*n**2]
z={(n,k):sp.Symbol(f'z{n}{k}') for n in (2,3) for k in range(n+1)}
def run(msbar_L, scheme_c):
    # lower coupling al in terms of upper a: al = a + sum a^{n+1} d[n,k] L^k  (downward)
    # take upward c (POLE or MSBAR corrected) and invert perturbatively to 3 loops
    c20,c21,c30=sp.symbols('c20 c21 c30')
    c11=R(2,3)
    # downward coefficients through order a^3 (only need to a^3 for mass at 3 loop: gamma0*al needs al to a^3)
    d11=-c11; d20=-c20; d21=-c21; d22=2*c11**2-R(4,9)
    al=a+a**2*(d11*L)+a**3*(d20+d21*L+d22*L**2)
    Z=1+sum(a**n*z[n,k]*L**k for (n,k) in z)
    gl=gm(nf); gh=gm(nf+1); bh=beta(nf+1)
    dadt=-sum(bh[i]*a**(i+2) for i in range(3))
    if msbar_L: dLdt=1+2*(gh[0]*a+gh[1]*a**2)
    else: dLdt=1
    # m' = m Z  => dln m'/dt = dln m/dt + dlnZ/dt
    lhs=-sum(gh[i]*a**(i+1) for i in range(3))
    rhs=-sum(gl[i]*al**(i+1) for i in range(3)) + (sp.diff(Z,a)*dadt+sp.diff(Z,L)*dLdt)/Z
    res=sp.expand(sp.series(sp.expand(sp.series(lhs-rhs,a,0,4).removeO()),a,0,4).removeO())
    P=sp.Poly(res,a,L)
    unknown=[z[n,k] for (n,k) in z if k>=1]
    sol=sp.solve(P.coeffs(),unknown,dict=True)
    for d in sol:
        for k,v in sorted(d.items(),key=str): print(msbar_L,k,sp.simplify(v.subs(scheme_c)))
run(True,{'c20':R(-22,9),'c21':R(22,3)})
run(False,{'c20':R(14,3),'c21':R(38,3)})
print(float(R(-89,27)), 71.7887, 7.85185)
