import ast, sys
from fractions import Fraction
import sympy as sp
src=open('/repo/src/eko/gamma.py').read()
tree=ast.parse(src)
funcs={n.name:n for n in tree.body if isinstance(n,ast.FunctionDef)}
env0={'zeta3':sp.Symbol('zeta3'),'zeta4':sp.Symbol('zeta4'),'zeta5':sp.Symbol('zeta5')}
def lit(v):
    if isinstance(v,float): return sp.Rational(str(Fraction(repr(v))))
    return sp.Integer(v)
def ev(e,env):
    if isinstance(e,ast.Constant): return lit(e.value)
    if isinstance(e,ast.Name): return env[e.id]
    if isinstance(e,ast.BinOp):
        l,r=ev(e.left,env),ev(e.right,env)
        return {ast.Add:lambda:l+r,ast.Sub:lambda:l-r,ast.Mult:lambda:l*r,ast.Div:lambda:l/r,ast.Pow:lambda:l**r}[type(e.op)]()
    if isinstance(e,ast.UnaryOp): return -ev(e.operand,env) if isinstance(e.op,ast.USub) else ev(e.operand,env)
    raise NotImplementedError(ast.dump(e))
nf=sp.Symbol('nf')
f=funcs['gamma_qcd_as4']
ret=[s for s in f.body if isinstance(s,ast.Return)][0]
got=sp.expand(ev(ret.value,{**env0,'nf':nf}))
z3,z4,z5=env0['zeta3'],env0['zeta4'],env0['zeta5']
R=sp.Rational
ref=sp.expand(R(4603055,162)+R(135680,27)*z3-8800*z5+(-R(91723,27)-R(34192,9)*z3+880*z4+R(18400,9)*z5)*nf+(R(5242,243)+R(800,9)*z3-R(160,3)*z4)*nf**2+(-R(332,243)+R(64,27)*z3)*nf**3)
print(sp.Poly(got-ref,nf).all_coeffs())
