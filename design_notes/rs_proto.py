import lark, re, time
g = r'''
start: stmt* expr?
stmt: "let" "mut"? NAME (":" type)? "=" expr ";"   -> let
    | expr ";"                                   -> exprstmt
type: /[A-Za-z_][A-Za-z0-9_:<>\[\]; ]*/
?expr: sum
?sum: product | sum "+" product -> add | sum "-" product -> sub
?product: unary | product "*" unary -> mul | product "/" unary -> div
?unary: "-" unary -> neg | postfix
?postfix: atom | postfix "." NAME "(" [args] ")" -> method | postfix "(" [args] ")" -> call
        | postfix "as" NAME -> cast | postfix "[" expr "]" -> index
args: expr ("," expr)* ","?
?atom: NUMBER -> num | path | "(" expr ")" | "[" [args] "]" -> array
path: NAME ("::" NAME)*
NAME: /[A-Za-z_][A-Za-z0-9_]*/
NUMBER: /[0-9]+(\.[0-9]*)?([eE][+-]?[0-9]+)?/
%import common.WS
%ignore WS
%ignore /\/\/[^\n]*/
%ignore /#\[[^\]]*\]/
'''
p=lark.Lark(g,parser='lalr')
src=open('/repo/crates/ekore/src/anomalous_dimensions/unpolarized/spacelike/as2.rs').read()
# crude function body extraction
fns=re.findall(r'fn (\w+)\([^)]*\)\s*->\s*[^{]+\{(.*?)\n\}\n', src.split('#[cfg(test)]')[0], re.S)
t=time.time(); ok=0
for name,body in fns:
    try:
        p.parse(body); ok+=1
    except Exception as e:
        print(name,'FAIL',str(e)[:200])
print(len(fns),ok,time.time()-t)
import glob
tot=0;good=0;bad=[]
for f in glob.glob('/repo/crates/ekore/src/**/*.rs',recursive=True):
    src=open(f).read().split('#[cfg(test)]')[0]
    fns=re.findall(r'fn (\w+)\s*(?:<[^>]*>)?\([^)]*\)\s*(?:->\s*[^{]+)?\{(.*?)\n\}\n', src, re.S)
    for name,body in fns:
        tot+=1
        try: p.parse(body); good+=1
        except Exception as e: bad.append((f.split('src/')[-1],name))
print(tot,good)
import collections
print(collections.Counter(b[0] for b in bad))
