"""Confirm a seeded change independently (not part of the registered checks; it RUNS the repo's tests).

usage: python3 tools/verify_seed.py <ID> [suffix]
  worktree /tmp/wt/<ID><suffix> (left patched by the seeding agent), deliverables in /tmp/seed_out/<ID><suffix>
Confirms: patch applies to a clean tree, sources compile, the 380 baseline tests still pass with the patch,
the demo fails with the patch and passes without it.  Writes /tmp/seed_out/<ID><suffix>/verify.json
"""
import json
import os
import subprocess
import sys
import xml.etree.ElementTree as ET

pid = sys.argv[1]
suf = sys.argv[2] if len(sys.argv) > 2 else ""
wt = f"/tmp/wt/{pid}{suf}"
out = f"/tmp/seed_out/{pid}{suf}"
patch = f"{out}/patch.diff"
res = {"id": pid + suf}


def sh(cmd, **kw):
    return subprocess.run(cmd, shell=True, capture_output=True, text=True, **kw)


# clean tree, then apply the patch
sh(f"git -C {wt} checkout -- . ")
r = sh(f"git -C {wt} apply --check {patch}")
res["patch_applies"] = r.returncode == 0
if r.returncode != 0:
    res["error"] = r.stderr[-500:]
    json.dump(res, open(f"{out}/verify.json", "w"), indent=1)
    print(json.dumps(res))
    sys.exit(1)
demo = "demo.py" if os.path.exists(f"{out}/demo.py") else "demo_test.py"
env = dict(os.environ, NUMBA_DISABLE_JIT="1", PYTHONPATH=f"{wt}/src")
democmd = (f"/venv/bin/python {out}/{demo}" if demo == "demo.py"
           else f"/venv/bin/python -m pytest -q -p no:cacheprovider -o addopts= {out}/{demo}")
r0 = sh(f"cd {wt} && {democmd}", env=env, timeout=1800)
res["demo_clean_exit"] = r0.returncode
res["demo_clean_tail"] = (r0.stdout + r0.stderr)[-400:]
sh(f"git -C {wt} apply {patch}")
res["touches_tests"] = bool(sh(f"git -C {wt} diff --name-only").stdout and any(
    l.startswith(("tests/", "benchmarks/")) for l in sh(f"git -C {wt} diff --name-only").stdout.splitlines()))
res["files"] = sh(f"git -C {wt} diff --name-only").stdout.split()
r = sh(f"cd {wt} && /venv/bin/python -m compileall -q src", env=env)
res["compiles"] = r.returncode == 0
r1 = sh(f"cd {wt} && {democmd}", env=env, timeout=1800)
res["demo_patched_exit"] = r1.returncode
res["demo_patched_tail"] = (r1.stdout + r1.stderr)[-600:]
junit = f"{out}/verify.junit.xml"
env2 = dict(os.environ, PYTHONPATH=f"{wt}/src")
r = sh(f"cd {wt} && /venv/bin/python -m pytest -q -p no:cacheprovider --timeout=900 --continue-on-collection-errors "
       f"-n 5 --junitxml={junit} 2>&1 | tail -3", env=env2, timeout=3600)
res["pytest_tail"] = r.stdout[-300:]
base = json.load(open("/root/.vp/BASELINE.json"))
stable = set(base["stable_pass"])
passed = set()
failed = set()
for tc in ET.parse(junit).getroot().iter("testcase"):
    tid = f"{tc.get('classname')}::{tc.get('name')}"
    if any(ch.tag in ("failure", "error") for ch in tc):
        failed.add(tid)
    elif not any(ch.tag == "skipped" for ch in tc):
        passed.add(tid)
res["baseline_pass_still_pass"] = len(stable & passed)
res["baseline_pass_now_failing"] = sorted(stable - passed)
res["tests_ok"] = not (stable - passed)
res["confirmed"] = bool(res["patch_applies"] and res["compiles"] and res["tests_ok"] and not res["touches_tests"]
                        and res["demo_clean_exit"] == 0 and res["demo_patched_exit"] != 0)
json.dump(res, open(f"{out}/verify.json", "w"), indent=1)
print(json.dumps({k: v for k, v in res.items() if "tail" not in k}, indent=1))
