"""Variants for tools/selftest.py: (id, property, expect, file, old, new[, count])."""

EVOP = "src/eko/evolution_operator/__init__.py"
RUN = "src/eko/runner"

MUTANTS = [
    # ---- C02 -------------------------------------------------------------------------------------------------------------
    ("c02-join-not-reversed", "C02", "detect", f"{RUN}/operators.py", "return reduce(_dotop, reversed(elements))", "return reduce(_dotop, elements)"),
    ("c02-dot4-transposed", "C02", "detect", f"{RUN}/operators.py", 'np.einsum("aibj,bjck->aick", op1, op2)', 'np.einsum("aibj,bjck->aick", op2, op1)'),
    ("c02-error-rule", "C02", "detect", f"{RUN}/operators.py", "err = _dot4(np.abs(op1.operator), np.abs(op2.error)) + _dot4(",
     "err = _dot4(np.abs(op1.operator), np.abs(op2.operator)) + _dot4("),
    ("c02-parts-in-target-loop", "C02", "detect", f"{RUN}/managed.py", "        for ep in operator.evolgrid:\n",
     "        for ep in operator.evolgrid:\n            for recipe in eko.recipes:\n                eko.parts[recipe] = parts.evolve(eko, recipe)\n"),
    ("c02-matching-nf", "C02", "detect", f"{RUN}/parts.py", "        recipe.hq - 1,\n", "        recipe.hq,\n"),
    ("c02-matching-ratio-index", "C02", "detect", f"{RUN}/parts.py", "squared_ratios[recipe.hq - 4]", "squared_ratios[recipe.hq - 3]"),
    ("c02-retrieve-wrong-inventory", "C02", "detect", f"{RUN}/operators.py", "inv = parts if isinstance(head, Evolution) else parts_matching",
     "inv = parts_matching if isinstance(head, Evolution) else parts"),
    ("c02-silent-join-loop", "C02", "silent", f"{RUN}/operators.py", "    return reduce(_dotop, reversed(elements))",
     "    rev = list(reversed(elements))\n    acc = rev[0]\n    for el in rev[1:]:\n        acc = _dotop(acc, el)\n    return acc"),
    ("c02-silent-dedup", "C02", "silent", f"{RUN}/recipes.py", "return list(set(recipes))", "return list(dict.fromkeys(recipes))"),
    # ---- C03 -------------------------------------------------------------------------------------------------------------
    ("c03-imap-unordered", "C03", "detect", EVOP, "res = pool.map(*args)", "res = list(pool.imap_unordered(*args))"),
    ("c03-worker-cache-on-self", "C03", "detect", EVOP, "        column = []\n        k, logx = log_grid\n",
     "        column = []\n        k, logx = log_grid\n        self._last = k\n"),
    ("c03-collect-transposed", "C03", "detect", EVOP, "self.op_members[label].value[j][k] = val", "self.op_members[label].value[k][j] = val"),
    ("c03-parallel-branch-other-args", "C03", "detect", EVOP, "                res = pool.map(*args)",
     "                res = pool.map(self.run_op_integration, enumerate(np.log(self.int_disp.xgrid.raw[::-1])))"),
    ("c03-cores-change-accuracy", "C03", "detect", EVOP, "                    epsrel=1e-5,", "                    epsrel=1e-5 * self.n_pools,"),
    ("c03-parts-read-mugrid", "C03", "detect", f"{RUN}/parts.py", "        xif2=tcard.xif**2,", "        xif2=tcard.xif**2 * len(ocard.mugrid) ** 0,"),
    ("c03-loop-carried", "C03", "detect", f"{RUN}/managed.py", "            components = operators.retrieve(ep, eko)\n",
     "            components = operators.retrieve(ep, eko) if ep is operator.evolgrid[0] else components[:1] + operators.retrieve(ep, eko)[1:]\n"),
    ("c03-silent-pool-starmap", "C03", "silent", EVOP, "res = pool.map(*args)", "res = pool.map(args[0], list(args[1]))"),
    ("c03-silent-collect-names", "C03", "silent", EVOP,
     "        for j, row in enumerate(res):\n            for k, entry in enumerate(row):\n                for label, (val, err) in entry.items():\n"
     "                    self.op_members[label].value[j][k] = val\n                    self.op_members[label].error[j][k] = err\n",
     "        for ix, row in enumerate(res):\n            for ib, entry in enumerate(row):\n                for label, pair in entry.items():\n"
     "                    self.op_members[label].value[ix][ib] = pair[0]\n                    self.op_members[label].error[ix][ib] = pair[1]\n"),
    # ---- C47 -------------------------------------------------------------------------------------------------------------
    ("c47-header-str-field", "C47", "detect", "src/eko/io/items.py", "    scale: SquaredScale\n    nf: FlavorsNumber\n",
     "    scale: SquaredScale\n    nf: FlavorsNumber\n    tag: str = \"\"\n"),
    ("c47-labels-from-set", "C47", "detect", EVOP, "                labels.extend(br.singlet_labels)", "                labels.extend(set(str(x) for x in br.singlet_labels))"),
    ("c47-time-in-metadata", "C47", "detect", EVOP, "        self.order = tuple(config[\"order\"])\n",
     "        self.order = tuple(config[\"order\"])\n        self.stamp = time.time()\n"),
    ("c47-fastmath", "C47", "detect", "src/eko/kernels/non_singlet.py", "@nb.njit(cache=True)\ndef lo_exact", "@nb.njit(cache=True, fastmath=True)\ndef lo_exact"),
    ("c47-hash-of-string-name", "C47", "detect", "src/eko/io/inventory.py", "abs(hash(header))", "abs(hash(str(header)))"),
    ("c47-silent-sorted-set", "C47", "silent", EVOP, "                labels.extend(br.singlet_labels)",
     "                labels.extend(sorted(set(br.singlet_labels), key=br.singlet_labels.index))"),
    ("c47-silent-time-logged", "C47", "silent", EVOP, "        tot_start_time = time.perf_counter()\n",
     "        tot_start_time = time.perf_counter()\n        logger.debug(\"start at %f\", time.time())\n"),
]
