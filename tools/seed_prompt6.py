"""Print the prompt given to a fresh seeding sub-agent for one property (text of the property only)."""
import json, sys
pid = sys.argv[1]
props = {json.loads(l)["id"]: json.loads(l) for l in open("/verif/properties.jsonl") if l.strip()}
p = props[pid]
wt = f"/tmp/wt/{pid}" + (sys.argv[2] if len(sys.argv) > 2 else "")
out = f"/tmp/seed_out/{pid}" + (sys.argv[2] if len(sys.argv) > 2 else "")
print(f"""You are helping test a verification effort by producing a realistic *bug injection* for the open-source project NNPDF/eko (a Python/numba solver for QCD DGLAP evolution equations). You have your own scratch git worktree of the repository at {wt} . Work ONLY inside {wt} and {out} . Never read or modify /repo or /verif (do not even list them), and do not run `git commit`, `git stash`, `git checkout` of other revisions or any git worktree command.

Property (id {pid}): "{p['title']}"
Statement: {p['statement']}
Quantifier: {p['quantifier']['text']}
Relevant source files (relative to the worktree): {', '.join(p['anchors']['files'])}

Task: make ONE small, realistic change to the library sources under {wt}/src (the kind of slip a maintainer could make during a refactor or an optimisation: a wrong sign/coefficient/index, a dropped copy, a reordered pair of statements, a weakened guard, a swapped argument, a missing case ...) such that
  1. the property above is now violated,
  2. every Python file still compiles/imports, and
  3. the existing test suite still passes exactly as before the change. Run it from the worktree like this (it needs about 1-3 minutes; the environment variable makes the worktree's sources take precedence over the installed ones):
        cd {wt} && PYTHONPATH={wt}/src /venv/bin/python -m pytest -q -p no:cacheprovider --timeout=900 --continue-on-collection-errors -n 4 -x -q 2>&1 | tail -15
     Note: on the UNCHANGED tree about 386 tests pass and a fixed set of about 12 tests/collection items already fail (legacy, dictlike serialization, genpdf antiqed/exceptions, some benchmarks and modules that need packages or files which are not installed). Record the exact failing set before your change. Drop `-x` if those pre-existing failures stop the run. Your change must not alter which tests pass or fail. It is fine (and faster) to first run only the test files closest to your change and then the full suite once at the end.
  4. The violation must need something specific to manifest - a particular input or parameter regime (e.g. one value of nf, one perturbative order, one method), a multi-step sequence of operations, a failure at a particular point, or two cooperating sites that each look fine alone - NOT something any ordinary use would expose at once. Prefer a change that is subtle and physically/semantically meaningful over a crude one, and prefer a mechanism or site that is NOT the first one that comes to mind (five other injections for this property already exist, from one-token slips at the obvious sites to regime-specific ones. Look for a SIXTH that is different IN KIND: not another one-token edit at a site everybody would look at first, but a plausible misunderstanding of a convention that a maintainer new to the code could have - which of two scales / couplings / flavour numbers / bases / normalisations a quantity refers to, which side of a boundary a limiting case belongs to, in which order two conventions are applied, what a helper's return value means - implemented consistently over a few lines (3-12 lines, possibly in two files) so that it reads like a deliberate clean-up or generalisation. It must still only show in a specific regime and keep the existing tests passing.)

Do not edit, add or delete anything under tests/ or benchmarks/ in the worktree. Do not change more than what the bug requires (ideally 1-10 lines in one or two files).

Deliverables, all written to {out}/ (create it):
  * patch.diff  - output of `git -C {wt} diff` (must apply with `git apply` to a clean checkout of the same commit).
  * demo.py     - a small self-contained program (or pytest file demo_test.py) that demonstrates the violation: it must exit non-zero (or fail) WITH the change and exit 0 (pass) WITHOUT it, when run as  `cd <tree> && NUMBA_DISABLE_JIT=1 PYTHONPATH=<tree>/src /venv/bin/python demo.py`  from the root of either tree. Verify both directions yourself: use `git -C {wt} stash`-free means, e.g. `git -C {wt} diff > {out}/patch.diff; git -C {wt} apply -R {out}/patch.diff` to get the clean tree back and `git -C {wt} apply {out}/patch.diff` to re-apply.
  * meta.json   - {{"property": "{pid}", "summary": "<one sentence: what was changed>", "files": [...], "needs": "<what specific input/sequence/regime it needs in order to manifest>", "tests_run": "<command(s) you ran and the pass/fail counts before and after>"}}

Leave the worktree WITH the change applied when you finish. In your final answer, report: the summary, what it needs to manifest, the test counts you observed, and the demo output in both directions. If after honest effort you cannot find a change that keeps the existing tests passing, say so and explain what you tried; do not fake results.""")
