"""Take a finished seeding agent's deliverables in: duplicate test, copy to seeded/, run the property's check on it.
usage: python3 tools/intake.py <ID>r5 [...]"""
import os, shutil, subprocess, sys
for sid in sys.argv[1:]:
    out = f"/tmp/seed_out/{sid}"
    if not os.path.exists(f"{out}/patch.diff"):
        print(sid, "NO PATCH"); continue
    r = subprocess.run(["python3", "/verif/tools/seed_dup.py", sid], capture_output=True, text=True).stdout.strip()
    if r.startswith("DUPLICATE"):
        print(sid, r); continue
    dst = f"/verif/seeded/{sid}"
    os.makedirs(dst, exist_ok=True)
    for f in os.listdir(out):
        if f in ("patch.diff", "meta.json") or (f.startswith("demo") and f.endswith(".py")):
            shutil.copy(f"{out}/{f}", dst)
    r = subprocess.run(["python3", "/verif/tools/run_seeds.py", sid], capture_output=True, text=True).stdout.strip().splitlines()
    print(r[-1][:330] if r else sid + " no output")
