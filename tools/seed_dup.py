"""Is the patch of a new seed the same change as a kept one? usage: python3 tools/seed_dup.py <ID>r5  (compares the +/- lines)"""
import glob, os, sys
def sig(p):
    return tuple(l.rstrip() for l in open(p) if (l.startswith("+") or l.startswith("-")) and not l.startswith(("+++", "---")) and l[1:].strip() and not l[1:].strip().startswith("#"))
new = sys.argv[1]
s = sig(f"/tmp/seed_out/{new}/patch.diff")
for d in sorted(glob.glob("/verif/seeded/*/patch.diff")):
    if os.path.basename(os.path.dirname(d)) == new:
        continue
    if sig(d) == s:
        print("DUPLICATE of", os.path.basename(os.path.dirname(d)))
        break
else:
    print("new")
