"""Run every claimed check (quick or thorough) on /repo in parallel; print a table. usage: run_all.py [quick|thorough]"""
import json, subprocess, sys, time
from concurrent.futures import ThreadPoolExecutor
tier = sys.argv[1] if len(sys.argv) > 1 else "quick"
m = json.load(open("/verif/MANIFEST.json"))
def run(c):
    t = time.time()
    r = subprocess.run(c["quick_cmd"] if tier == "quick" else c["thorough_cmd"], shell=True, cwd="/verif", capture_output=True, text=True)
    return c["property_id"], r.returncode, time.time() - t, r.stdout.strip().splitlines()[-1][:150] if r.stdout.strip() else r.stderr[-150:]
bad = 0
with ThreadPoolExecutor(8) as ex:
    for pid, rc, dt, last in ex.map(run, m["checks"]):
        print(f"{pid} exit={rc} {dt:5.1f}s {last}")
        bad += rc != 0
print("ALL OK" if not bad else f"{bad} NOT OK")
