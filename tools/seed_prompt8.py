"""Prompt of the eighth seeding round: the sixth-round prompt with a different hint about the kind of change."""
import re, subprocess, sys
pid, tag = sys.argv[1], sys.argv[2]
txt = subprocess.run([sys.executable, "/verif/tools/seed_prompt6.py", pid, tag], capture_output=True, text=True, check=True).stdout
i = txt.index("(five other injections")
j = txt.index("It must still only show")
hint = ("(several other injections for this property already exist, from one-token slips at the obvious sites to consistently implemented "
        "misunderstandings of a convention. Look for one that is different IN KIND again: a change in the ORDER in which operations happen, in which "
        "failure / exception / early-return paths are covered, in what is remembered between two calls or two uses of the same object, in what "
        "happens the second or third time something is done, or in a helper that several callers share and only one of them needs changed - "
        "the kind of thing that slips in with an optimisation, a caching layer, a hoisted computation, a merged pair of branches or a 'simplified' "
        "error handling, spread over 3-12 lines so that it reads like a deliberate improvement. ")
print(txt[:i] + hint + txt[j:])
