"""Checker self-test: hand-written variants of /repo's current tree, one edit each.

`detect` variants break a property while still compiling: the named check must exit 1 on them.
`silent` variants are behaviour-preserving rewrites: the named check must stay exit 0 (no false alarm).
Variants live in tools/mutants.py as (id, property, expect, file, old, new[, count[, (old2, new2), ...]]).  Each is applied to a scratch copy of
/repo/src + /repo/crates outside /repo, /verif and /tmp, the check is run with VERIF_REPO pointing there, the copy is removed.

usage: python3 tools/selftest.py [property ids or variant ids ...]     -> /verif/selftest/RESULTS.json
"""
import json
import os
import py_compile
import shutil
import subprocess
import sys
from concurrent.futures import ThreadPoolExecutor

sys.path.insert(0, os.path.dirname(__file__))
from mutants import MUTANTS  # noqa: E402

VERIF = "/verif"
SCRATCH = os.path.expanduser("~/.cache/eko-verif-selftest")


def run_one(mu):
    mid, pid, expect, rel, old, new = mu[:6]
    count = mu[6] if len(mu) > 6 else 1
    work = f"{SCRATCH}/{mid}"
    shutil.rmtree(work, ignore_errors=True)
    os.makedirs(work)
    try:
        subprocess.run(f"rsync -a --exclude __pycache__ /repo/src /repo/crates {work}/", shell=True, check=True)
        p = f"{work}/{rel}"
        s = open(p).read()
        if s.count(old) < 1 or (count and s.count(old) != count):
            return mid, pid, expect, "stale", f"`{old[:40]}` occurs {s.count(old)} times in {rel}"
        s = s.replace(old, new)
        for o2, n2 in mu[7:]:            # further (old, new) replacements in the same file
            if s.count(o2) != 1:
                return mid, pid, expect, "stale", f"`{o2[:40]}` occurs {s.count(o2)} times in {rel}"
            s = s.replace(o2, n2)
        open(p, "w").write(s)
        if p.endswith(".py"):
            try:
                py_compile.compile(p, doraise=True, cfile=f"{work}/x.pyc")
            except py_compile.PyCompileError as e:
                return mid, pid, expect, "stale", f"variant does not compile: {e}"
        env = dict(os.environ, VERIF_REPO=work, VERIF_EVIDENCE_DIR=f"{work}/evidence", VERIF_REPLAY_DIR=f"{work}/replay")
        r = subprocess.run(f"cd {VERIF} && python3-vt -B -m sa.check {pid} --tier quick", shell=True, capture_output=True, text=True, env=env)
        first = next((l for l in r.stdout.splitlines() if "[" in l and not l.startswith(("VIOLATION", "OK", "KNOWN"))), "")
        if r.returncode == 2:
            err = next((l for l in r.stdout.splitlines() if l.startswith("ANALYSIS-ERROR")), "")
            return mid, pid, expect, "analysis-error", err[:300]
        got = "detect" if r.returncode == 1 else "silent"
        return mid, pid, expect, ("ok" if got == expect else ("MISSED" if expect == "detect" else "FALSE-ALARM")), first[:300]
    finally:
        shutil.rmtree(work, ignore_errors=True)


def main():
    sel = set(sys.argv[1:])
    todo = [m for m in MUTANTS if not sel or m[0] in sel or m[1] in sel]
    ids = [m[0] for m in MUTANTS]
    assert len(ids) == len(set(ids)), "duplicate variant ids"
    out = {}
    with ThreadPoolExecutor(12) as ex:
        for mid, pid, expect, status, info in ex.map(run_one, todo):
            out[mid] = {"property": pid, "expect": expect, "status": status, "info": info}
            print(f"{mid:34s} {pid} {expect:7s} {status:14s} {info[:150]}")
    os.makedirs(f"{VERIF}/selftest", exist_ok=True)
    path = f"{VERIF}/selftest/RESULTS.json"
    old = json.load(open(path)) if os.path.exists(path) else {}
    old.update(out)
    old = {k: v for k, v in old.items() if k in ids}
    json.dump(old, open(path, "w"), indent=1, sort_keys=True)
    bad = [k for k, v in out.items() if v["status"] != "ok"]
    print(f"{len(out) - len(bad)}/{len(out)} variants as expected" + (f"; NOT: {bad}" if bad else ""))
    return 1 if bad else 0


if __name__ == "__main__":
    sys.exit(main())
