"""Copy a confirmed seeded change into /verif/seeded/<id>/ and remove its scratch worktree."""
import json, os, shutil, subprocess, sys
sid = sys.argv[1]
out = f"/tmp/seed_out/{sid}"
v = json.load(open(f"{out}/verify.json"))
if not v.get("confirmed"):
    print("NOT CONFIRMED", sid); sys.exit(1)
dst = f"/verif/seeded/{sid}"
os.makedirs(dst, exist_ok=True)
shutil.copy(f"{out}/patch.diff", dst)
demo = "demo.py" if os.path.exists(f"{out}/demo.py") else "demo_test.py"
shutil.copy(f"{out}/{demo}", dst)
meta = json.load(open(f"{out}/meta.json")) if os.path.exists(f"{out}/meta.json") else {}
meta["confirmed_by"] = {
    "what_i_ran": "tools/verify_seed.py: git apply --check on a clean worktree; compileall; demo on clean tree (exit 0) and patched tree (exit != 0); "
                  "full pytest suite (-n 5, junit) on the patched tree compared with BASELINE.json stable_pass",
    "demo_clean_exit": v["demo_clean_exit"], "demo_patched_exit": v["demo_patched_exit"],
    "baseline_pass_still_pass": v["baseline_pass_still_pass"], "baseline_pass_now_failing": v["baseline_pass_now_failing"],
    "demo_patched_tail": v.get("demo_patched_tail", "")[-300:],
}
json.dump(meta, open(f"{dst}/meta.json", "w"), indent=1)
subprocess.run(f"git -C /repo worktree remove --force /tmp/wt/{sid}", shell=True)
print("kept", sid)
