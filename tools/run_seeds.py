"""Run the checks against every seeded change in /verif/seeded/*/patch.diff.

Each patch is applied to a scratch copy of /repo's current src/ and crates/ (outside /repo, /verif and /tmp),
the property's check (or --all checks) is run with VERIF_REPO pointing there, and the copy is removed.
Writes /verif/seeded/RESULTS.json and prints a table.  usage: python3 tools/run_seeds.py [--all] [ids...]
"""
import json
import os
import shutil
import subprocess
import sys
from concurrent.futures import ThreadPoolExecutor

VERIF = "/verif"
SCRATCH = os.path.expanduser(f"~/.cache/eko-verif-scratch/{os.getpid()}")   # per process: concurrent runs must not share copies


def sh(cmd, **kw):
    return subprocess.run(cmd, shell=True, capture_output=True, text=True, **kw)


def claimed():
    m = json.load(open(f"{VERIF}/MANIFEST.json"))
    return [c["property_id"] for c in m["checks"]]


def run_one(sid, all_checks, checks):
    d = f"{VERIF}/seeded/{sid}"
    meta = json.load(open(f"{d}/meta.json"))
    prop = meta.get("property", sid[:3])
    work = f"{SCRATCH}/{sid}"
    shutil.rmtree(work, ignore_errors=True)
    os.makedirs(work)
    try:
        sh(f"rsync -a --exclude __pycache__ /repo/src /repo/crates {work}/")
        r = sh(f"cd {work} && patch -p1 --no-backup-if-mismatch -F3 < {d}/patch.diff")
        if r.returncode != 0:
            return sid, prop, {"error": "patch does not apply on the current tree: " + r.stdout[-200:]}
        res = {}
        todo = checks if all_checks else [prop]
        for pid in todo:
            if pid not in checks:
                res[pid] = "not-claimed"
                continue
            env = dict(os.environ, VERIF_REPO=work, VERIF_EVIDENCE_DIR=f"{work}/evidence", VERIF_REPLAY_DIR=f"{work}/replay")
            r = sh(f"cd {VERIF} && python3-vt -B -m sa.check {pid} --tier quick", env=env)
            lines = [l for l in r.stdout.splitlines() if l.startswith("VIOLATION")]
            first = next((l for l in r.stdout.splitlines() if "[" in l and "]" in l and not l.startswith(("VIOLATION", "OK", "KNOWN"))), "")
            res[pid] = {"exit": r.returncode, "violations": len(lines), "first": first[:300],
                        "error": next((l for l in r.stdout.splitlines() if l.startswith("ANALYSIS-ERROR")), "")[:300]}
        return sid, prop, res
    finally:
        shutil.rmtree(work, ignore_errors=True)


def main():
    args = [a for a in sys.argv[1:] if not a.startswith("--")]
    all_checks = "--all" in sys.argv
    ids = args or sorted(x for x in os.listdir(f"{VERIF}/seeded") if os.path.isdir(f"{VERIF}/seeded/{x}"))
    checks = claimed()
    results = {}
    with ThreadPoolExecutor(8) as ex:
        for sid, prop, res in ex.map(lambda s: run_one(s, all_checks, checks), ids):
            results[sid] = {"property": prop, "checks": res}
    path = f"{VERIF}/seeded/RESULTS.json"
    import fcntl

    with open(path + ".lock", "w") as lk:  # several runs may finish at the same time
        fcntl.flock(lk, fcntl.LOCK_EX)
        old = json.load(open(path)) if os.path.exists(path) else {}
        old.update(results)
        with open(path + ".tmp", "w") as fh:
            json.dump(old, fh, indent=1, sort_keys=True)
        os.replace(path + ".tmp", path)
    for sid in ids:
        r = results[sid]
        if "error" in r["checks"]:
            print(f"{sid:8s} {r['checks']['error']}")
            continue
        for pid, v in r["checks"].items():
            if isinstance(v, str):
                print(f"{sid:8s} {pid}: {v}")
            else:
                tag = "DETECTED" if v["exit"] == 1 else ("missed" if v["exit"] == 0 else "ANALYSIS-ERROR")
                if all_checks and v["exit"] == 0:
                    continue
                print(f"{sid:8s} {pid}: {tag:9s} {v['first'] or v['error']}")
    shutil.rmtree(SCRATCH, ignore_errors=True)


if __name__ == "__main__":
    main()
