"""Behaviour-preserving rewrites of the WHOLE repository, as a test for false alarms: every check must exit 0 on each of them.

  reformat   every file re-emitted from its syntax tree (comments gone, quotes / parentheses / line numbers changed)
  rename     reformat + every local variable of every function without nested scopes renamed (x -> x_r)
  rettemp    reformat + `return EXPR` turned into `_ret_value = EXPR; return _ret_value` in such functions
  ifelse     reformat + `if c: return a` followed by `return b` turned into if/else
  condtemp   reformat + `if COND:` turned into `_cond_value = COND; if _cond_value:`
  negif      reformat + `if c: A else: B` turned into `if not c: B else: A`
  mulswap    reformat + `a * b` -> `b * a` for call-free operands
  cmpflip    reformat + `a < b` -> `b > a`, `a == b` -> `b == a`
  kwswap     reformat + keyword arguments of calls in reversed order
  ifexp      reformat + conditional expressions <-> if/else statements
  recvtemp   reformat + `a.b.c(args)` -> `_recv = a.b; _recv.c(args)`
  poskw      positional arguments of calls to repository functions, methods and constructors passed by keyword
  kwpos      keyword arguments of such calls passed by position where the order allows
  constname  reformat + float literals inside comparisons hoisted to module-level constants
  comploop   reformat + `x = [e for t in it]` -> empty list and a loop with append
  npalias    reformat + `import numpy as np` -> `import numpy as npx`, uses renamed

usage: python3 tools/equivalents.py [variant ...] [--checks C01,C02,...] [--keep]
Scratch copies live under ~/.cache/eko-verif-scratch and are removed.  Not a registered check; it RUNS the checks of /verif only.
"""
import ast
import json
import os
import shutil
import subprocess
import sys
from concurrent.futures import ThreadPoolExecutor

VERIF = "/verif"
SCRATCH = os.path.expanduser(f"~/.cache/eko-verif-scratch/eq{os.getpid()}")


def simple_function(fn):
    """no nested def / lambda / class, no global / nonlocal, no locals()/eval/exec"""
    for n in ast.walk(fn):
        if n is not fn and isinstance(n, (ast.FunctionDef, ast.AsyncFunctionDef, ast.Lambda, ast.ClassDef, ast.Global, ast.Nonlocal)):
            return False
        if isinstance(n, ast.Name) and n.id in ("locals", "eval", "exec", "vars"):
            return False
    return True


def rename_locals(tree):
    for fn in ast.walk(tree):
        if not isinstance(fn, (ast.FunctionDef, ast.AsyncFunctionDef)) or not simple_function(fn):
            continue
        params = {a.arg for a in fn.args.args + fn.args.kwonlyargs + fn.args.posonlyargs}
        if fn.args.vararg:
            params.add(fn.args.vararg.arg)
        if fn.args.kwarg:
            params.add(fn.args.kwarg.arg)
        stored = {n.id for n in ast.walk(fn) if isinstance(n, ast.Name) and isinstance(n.ctx, (ast.Store, ast.Del))} - params
        stored = {s for s in stored if not s.startswith("__")}
        for n in ast.walk(fn):
            if isinstance(n, ast.Name) and n.id in stored:
                n.id = n.id + "_r"
    return tree


def return_temp(tree):
    class T(ast.NodeTransformer):
        def visit_FunctionDef(self, fn):
            if not simple_function(fn):
                return fn
            self.generic_visit(fn)
            return fn

        def visit_Return(self, r):
            if r.value is None or isinstance(r.value, (ast.Name, ast.Constant)):
                return r
            return [ast.Assign(targets=[ast.Name("_ret_value", ast.Store())], value=r.value, lineno=r.lineno), ast.Return(ast.Name("_ret_value", ast.Load()))]

    return ast.fix_missing_locations(T().visit(tree))


def if_else(tree):
    class T(ast.NodeTransformer):
        def fix(self, body):
            out = []
            i = 0
            while i < len(body):
                st = body[i]
                if isinstance(st, ast.If) and not st.orelse and st.body and isinstance(st.body[-1], ast.Return) and i + 1 < len(body) \
                        and isinstance(body[i + 1], ast.Return) and i + 2 == len(body):
                    st.orelse = [body[i + 1]]
                    out.append(st)
                    i += 2
                    continue
                out.append(st)
                i += 1
            return out

        def visit_FunctionDef(self, fn):
            self.generic_visit(fn)
            fn.body = self.fix(fn.body)
            return fn

    return ast.fix_missing_locations(T().visit(tree))


def cond_temp(tree):
    """`if COND:` -> `_cond_value = COND; if _cond_value:` (first-level statements of functions without nested scopes)"""
    for fn in ast.walk(tree):
        if not isinstance(fn, (ast.FunctionDef, ast.AsyncFunctionDef)) or not simple_function(fn):
            continue
        out = []
        for i, st in enumerate(fn.body):
            if isinstance(st, ast.If) and not isinstance(st.test, (ast.Name, ast.Constant)):
                nm = f"_cond_value{i}"
                out.append(ast.Assign(targets=[ast.Name(nm, ast.Store())], value=st.test, lineno=st.lineno))
                st.test = ast.Name(nm, ast.Load())
            out.append(st)
        fn.body = out
    return ast.fix_missing_locations(tree)


def negated_if(tree):
    """`if c: A else: B` -> `if not c: B else: A`"""
    class T(ast.NodeTransformer):
        def visit_If(self, st):
            self.generic_visit(st)
            if st.orelse and not (len(st.orelse) == 1 and isinstance(st.orelse[0], ast.If)):
                st.test = ast.UnaryOp(op=ast.Not(), operand=st.test)
                st.body, st.orelse = st.orelse, st.body
            return st

    return ast.fix_missing_locations(T().visit(tree))


def mul_swap(tree):
    """`a * b` -> `b * a` when both operands are names, attributes, subscripts or numbers (no calls: evaluation order is kept)"""
    simple = (ast.Name, ast.Attribute, ast.Subscript, ast.Constant)

    class T(ast.NodeTransformer):
        def visit_BinOp(self, n):
            self.generic_visit(n)
            if isinstance(n.op, ast.Mult) and isinstance(n.left, simple) and isinstance(n.right, simple) \
                    and not any(isinstance(x, ast.Constant) and isinstance(x.value, (str, bytes)) for x in (n.left, n.right)) \
                    and not any(isinstance(c, ast.Call) for x in (n.left, n.right) for c in ast.walk(x)):
                n.left, n.right = n.right, n.left
            return n

    return ast.fix_missing_locations(T().visit(tree))


def cmp_flip(tree):
    """`a < b` -> `b > a`, `a == b` -> `b == a` (single comparisons of call-free operands; `is` / `in` untouched)"""
    flip = {ast.Lt: ast.Gt, ast.Gt: ast.Lt, ast.LtE: ast.GtE, ast.GtE: ast.LtE, ast.Eq: ast.Eq, ast.NotEq: ast.NotEq}

    class T(ast.NodeTransformer):
        def visit_Compare(self, n):
            self.generic_visit(n)
            if len(n.ops) == 1 and type(n.ops[0]) in flip and not any(isinstance(c, ast.Call) for x in (n.left, n.comparators[0]) for c in ast.walk(x)):
                n.left, n.comparators[0] = n.comparators[0], n.left
                n.ops = [flip[type(n.ops[0])]()]
            return n

    return ast.fix_missing_locations(T().visit(tree))


def kw_swap(tree):
    """keyword arguments of every call in reversed order (values without calls only, so evaluation order does not matter)"""
    class T(ast.NodeTransformer):
        def visit_Call(self, n):
            self.generic_visit(n)
            if len(n.keywords) > 1 and all(k.arg is not None for k in n.keywords) \
                    and not any(isinstance(c, ast.Call) for k in n.keywords for c in ast.walk(k.value)):
                n.keywords = list(reversed(n.keywords))
            return n

    return ast.fix_missing_locations(T().visit(tree))


def if_exp(tree):
    """`x = a if c else b` -> if/else with two assignments; `return a if c else b` -> if/else with two returns;
    and the reverse for `if c: x = a else: x = b` with a plain name target"""
    class T(ast.NodeTransformer):
        def visit_Assign(self, st):
            if isinstance(st.value, ast.IfExp) and len(st.targets) == 1 and isinstance(st.targets[0], ast.Name):
                v = st.value
                return ast.If(test=v.test, body=[ast.Assign(targets=[ast.Name(st.targets[0].id, ast.Store())], value=v.body, lineno=st.lineno)],
                              orelse=[ast.Assign(targets=[ast.Name(st.targets[0].id, ast.Store())], value=v.orelse, lineno=st.lineno)])
            return st

        def visit_Return(self, st):
            if isinstance(st.value, ast.IfExp):
                v = st.value
                return ast.If(test=v.test, body=[ast.Return(v.body)], orelse=[ast.Return(v.orelse)])
            return st

        def visit_If(self, st):
            self.generic_visit(st)
            if len(st.body) == 1 and len(st.orelse) == 1 and all(isinstance(x, ast.Assign) and len(x.targets) == 1 and isinstance(x.targets[0], ast.Name)
                                                                   for x in (st.body[0], st.orelse[0])) \
                    and st.body[0].targets[0].id == st.orelse[0].targets[0].id and not isinstance(st.body[0].value, ast.IfExp) \
                    and not isinstance(st.orelse[0].value, ast.IfExp):
                return ast.Assign(targets=[ast.Name(st.body[0].targets[0].id, ast.Store())],
                                  value=ast.IfExp(test=st.test, body=st.body[0].value, orelse=st.orelse[0].value), lineno=st.lineno)
            return st

    return ast.fix_missing_locations(T().visit(tree))


def np_alias(tree):
    """`import numpy as np` -> `import numpy as npx` with every use of the alias renamed (modules where `np` is bound only by that import)"""
    binds = [n for n in ast.walk(tree) if isinstance(n, ast.Name) and n.id == "np" and isinstance(n.ctx, (ast.Store, ast.Del))]
    args = [a for n in ast.walk(tree) if isinstance(n, ast.arguments) for a in n.args + n.kwonlyargs + n.posonlyargs if a.arg == "np"]
    imps = [a for n in ast.walk(tree) if isinstance(n, ast.Import) for a in n.names if a.name == "numpy" and a.asname == "np"]
    if binds or args or not imps:
        return tree
    for a in imps:
        a.asname = "npx"
    for n in ast.walk(tree):
        if isinstance(n, ast.Name) and n.id == "np":
            n.id = "npx"
    return tree


def recv_temp(tree):
    """`a.b.c(args)` as a statement or the value of an assignment -> `_recv = a.b; _recv.c(args)` (functions without nested scopes)"""
    for fn in ast.walk(tree):
        if not isinstance(fn, (ast.FunctionDef, ast.AsyncFunctionDef)) or not simple_function(fn):
            continue
        for holder in ast.walk(fn):
            for field in ("body", "orelse", "finalbody"):
                body = getattr(holder, field, None)
                if not isinstance(body, list) or not body or not isinstance(body[0], ast.stmt):
                    continue
                out = []
                for i, st in enumerate(body):
                    call = st.value if isinstance(st, (ast.Expr, ast.Assign)) and isinstance(getattr(st, "value", None), ast.Call) else None
                    if call is not None and isinstance(call.func, ast.Attribute) and isinstance(call.func.value, ast.Attribute) \
                            and not any(isinstance(c, ast.Call) for c in ast.walk(call.func.value)):
                        nm = f"_recv{st.lineno}"
                        out.append(ast.Assign(targets=[ast.Name(nm, ast.Store())], value=call.func.value, lineno=st.lineno))
                        call.func.value = ast.Name(nm, ast.Load())
                    out.append(st)
                setattr(holder, field, out)
    return ast.fix_missing_locations(tree)


def const_name(tree):
    """float literals inside comparisons hoisted to module-level constants (`abs(x) < 1e-5` -> `abs(x) < _TOL_3`)"""
    consts = []

    class T(ast.NodeTransformer):
        def __init__(self):
            self.in_fn = 0

        def visit_FunctionDef(self, fn):
            self.in_fn += 1
            self.generic_visit(fn)
            self.in_fn -= 1
            return fn

        def visit_Compare(self, n):
            self.generic_visit(n)
            if not self.in_fn:
                return n
            for i, c in enumerate([n.left] + n.comparators):
                if isinstance(c, ast.Constant) and isinstance(c.value, float):
                    nm = f"_TOL_{len(consts)}"
                    consts.append((nm, c.value))
                    new = ast.Name(nm, ast.Load())
                    if i == 0:
                        n.left = new
                    else:
                        n.comparators[i - 1] = new
            return n

    tree = T().visit(tree)
    if consts:
        k = 0
        while k < len(tree.body) and (isinstance(tree.body[k], (ast.Import, ast.ImportFrom)) or (
                isinstance(tree.body[k], ast.Expr) and isinstance(tree.body[k].value, ast.Constant))):
            k += 1
        tree.body[k:k] = [ast.Assign(targets=[ast.Name(nm, ast.Store())], value=ast.Constant(v), lineno=1) for nm, v in consts]
    return ast.fix_missing_locations(tree)


def comp_loop(tree):
    """`x = [e for t in it if c]` -> `x = []` + a for loop with append (functions without nested scopes; the loop variables are
    used nowhere else in the function and `x` does not occur in the comprehension)"""
    for fn in ast.walk(tree):
        if not isinstance(fn, (ast.FunctionDef, ast.AsyncFunctionDef)):
            continue
        if any(n is not fn and isinstance(n, (ast.FunctionDef, ast.AsyncFunctionDef, ast.Lambda, ast.ClassDef, ast.Global, ast.Nonlocal)) for n in ast.walk(fn)):
            continue
        for holder in ast.walk(fn):
            for field in ("body", "orelse", "finalbody"):
                body = getattr(holder, field, None)
                if not isinstance(body, list) or not body or not isinstance(body[0], ast.stmt):
                    continue
                out = []
                for st in body:
                    ok = isinstance(st, ast.Assign) and len(st.targets) == 1 and isinstance(st.targets[0], ast.Name) and isinstance(st.value, ast.ListComp) \
                        and len(st.value.generators) == 1 and not st.value.generators[0].is_async \
                        and not any(isinstance(x, (ast.ListComp, ast.SetComp, ast.DictComp, ast.GeneratorExp)) for x in ast.walk(st.value) if x is not st.value)
                    if ok:
                        g = st.value.generators[0]
                        tnames = {x.id for x in ast.walk(g.target) if isinstance(x, ast.Name)}
                        inside = {id(x) for x in ast.walk(st.value)}
                        elsewhere = {x.id for x in ast.walk(fn) if isinstance(x, ast.Name) and id(x) not in inside} | {a.arg for a in ast.walk(fn) if isinstance(a, ast.arg)}
                        x = st.targets[0].id
                        if tnames & elsewhere or x in {y.id for y in ast.walk(st.value) if isinstance(y, ast.Name)}:
                            ok = False
                    if not ok:
                        out.append(st)
                        continue
                    app = ast.Expr(ast.Call(func=ast.Attribute(value=ast.Name(x, ast.Load()), attr="append", ctx=ast.Load()), args=[st.value.elt], keywords=[]))
                    inner = [app]
                    for c in reversed(g.ifs):
                        inner = [ast.If(test=c, body=inner, orelse=[])]
                    out.append(ast.Assign(targets=[ast.Name(x, ast.Store())], value=ast.List(elts=[], ctx=ast.Load()), lineno=st.lineno))
                    out.append(ast.For(target=g.target, iter=g.iter, body=inner, orelse=[], lineno=st.lineno))
                setattr(holder, field, out)
    return ast.fix_missing_locations(tree)


VARIANTS = {"reformat": lambda t: t, "rename": rename_locals, "rettemp": return_temp, "ifelse": if_else, "condtemp": cond_temp, "negif": negated_if,
            "mulswap": mul_swap, "cmpflip": cmp_flip, "kwswap": kw_swap, "ifexp": if_exp, "npalias": np_alias, "recvtemp": recv_temp, "poskw": None, "kwpos": None, "constname": const_name, "comploop": comp_loop}


def build_resolved(variant, work):
    """variants that need the callee of a call: done on the source model of /verif (module-level functions, methods reached through
    an instance or the class, constructors of the repository)"""
    sys.path.insert(0, VERIF)
    from sa.src import Func, Source

    src = Source()
    n_calls = 0
    from sa.src import Class

    ftypes = {}
    for q, f in src.funcs.items():
        cl = f.cls or (f.parent.cls if f.parent else None)
        if cl is not None and cl.qname not in ftypes:
            ftypes[cl.qname] = src.field_types(cl)
        lt = ftypes.get(cl.qname) if cl is not None else None
        for c in src.calls_in(f):
            r = src.resolve_call(f, c, lt)
            skip = 0
            if isinstance(r, Class):
                init = src.find_method(r, "__init__")
                if init is None:
                    if not r.is_dataclass or r.node.bases or r.is_jitclass:
                        continue
                    names = [nm for nm, (ann, _d) in r.fields().items() if "ClassVar" not in ann and "InitVar" not in ann]
                    if any(isinstance(d, ast.Call) and "init=False" in ast.unparse(d) for _a, d in r.fields().values() if d is not None):
                        continue
                    a = None
                else:
                    if init.cls is not r:
                        continue
                    a = init.node.args
                    skip = 1
            elif isinstance(r, Func) and r.parent is None:
                a = r.node.args
                if r.cls is not None:
                    decs = " ".join(r.decorator_names())
                    if "property" in decs or "setter" in decs or not isinstance(c.func, ast.Attribute):
                        continue
                    recv = src.dotted(c.func.value)
                    via_class = recv is not None and isinstance(src.resolve_name(f.module, recv), str) and src.resolve_name(f.module, recv) in src.classes
                    if "staticmethod" in decs:
                        skip = 0
                    elif "classmethod" in decs or not via_class:
                        skip = 1
                    else:
                        continue
            else:
                continue
            if a is not None:
                if a.vararg or a.kwarg or a.posonlyargs:
                    continue
                names = [x.arg for x in a.args][skip:]
            if any(isinstance(x, ast.Starred) for x in c.args) or any(k.arg is None for k in c.keywords):
                continue
            if variant == "poskw" and c.args and len(c.args) <= len(names):
                c.keywords = [ast.keyword(arg=names[i], value=v) for i, v in enumerate(c.args)] + c.keywords
                c.args = []
                n_calls += 1
            if variant == "kwpos" and c.keywords:
                given = {k.arg: k.value for k in c.keywords}
                i = len(c.args)
                while i < len(names) and names[i] in given:
                    c.args.append(given.pop(names[i]))
                    i += 1
                if len(given) < len(c.keywords):
                    c.keywords = [k for k in c.keywords if k.arg in given]
                    n_calls += 1
    n = 0
    for m in src.modules.values():
        rel = os.path.relpath(str(m.path), "/repo")
        out = ast.unparse(ast.fix_missing_locations(m.tree)) + "\n"
        compile(out, rel, "exec")
        open(f"{work}/{rel}", "w").write(out)
        n += 1
    print(f"   ({n_calls} calls rewritten)")
    return work, n


def build(variant):
    work = f"{SCRATCH}/{variant}"
    shutil.rmtree(work, ignore_errors=True)
    os.makedirs(work)
    subprocess.run(f"rsync -a --exclude __pycache__ /repo/src /repo/crates {work}/", shell=True, check=True)
    if variant in ("poskw", "kwpos"):
        return build_resolved(variant, work)
    n = 0
    for root, _d, files in os.walk(f"{work}/src"):
        for f in files:
            if not f.endswith(".py"):
                continue
            p = os.path.join(root, f)
            src = open(p).read()
            tree = VARIANTS[variant](ast.parse(src))
            out = ast.unparse(ast.fix_missing_locations(tree)) + "\n"
            compile(out, p, "exec")
            open(p, "w").write(out)
            n += 1
    return work, n


def main():
    args = [a for a in sys.argv[1:] if not a.startswith("--")]
    only = next((a.split("=", 1)[1].split(",") for a in sys.argv[1:] if a.startswith("--checks=")), None)
    variants = args or list(VARIANTS)
    checks = [c["property_id"] for c in json.load(open(f"{VERIF}/MANIFEST.json"))["checks"]]
    if only:
        checks = [c for c in checks if c in only]
    bad = 0
    for v in variants:
        work, n = build(v)
        env = dict(os.environ, VERIF_REPO=work, VERIF_EVIDENCE_DIR=f"{work}/evidence", VERIF_REPLAY_DIR=f"{work}/replay")

        def one(pid):
            r = subprocess.run(f"cd {VERIF} && python3-vt -B -m sa.check {pid} --tier quick", shell=True, env=env, capture_output=True, text=True)
            first = next((l for l in r.stdout.splitlines() if ("[" in l and "]" in l and not l.startswith(("VIOLATION", "OK", "KNOWN"))) or l.startswith("ANALYSIS-ERROR")), "")
            return pid, r.returncode, first[:260]

        with ThreadPoolExecutor(6) as ex:
            res = list(ex.map(one, checks))
        nz = [(p, rc, f) for p, rc, f in res if rc != 0]
        print(f"variant {v}: {n} files rewritten, {len(checks) - len(nz)}/{len(checks)} checks silent")
        for p, rc, f in nz:
            bad += 1
            print(f"   {p} exit={rc} {f}")
        if "--keep" not in sys.argv:
            shutil.rmtree(work, ignore_errors=True)
    shutil.rmtree(SCRATCH, ignore_errors=True) if "--keep" not in sys.argv else None
    return 1 if bad else 0


if __name__ == "__main__":
    sys.exit(main())
